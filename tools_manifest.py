#!/usr/bin/env python3
"""Regenerates MANIFEST.json from the per-property table below (kept next to the checks)."""
import json
import os

HERE = os.path.dirname(os.path.abspath(__file__))

TECH_P = "contract-based deductive verification: pyvc (own AST->SMT verifier, sidecar contracts on the real functions, z3/cvc5)"
BOUNDED = "no contract within reach of the verifier decides this property as a whole; bounded run-time contract checking of the real API is the stand-in (labelled B / E, never counted as proved)"
CHECKS = {
    "C01": ("Layer-1 contracts of every deserialization node class (accepts-iff-conforms, typed image) discharged for arbitrary children and data, incl. the object node with its cardinality shortcut; selection layer and typing dispatch covered by a bounded run-time contract of deserialize against the reference semantics", "4.1, 7 C01"),
    "C02": ("exact error value (messages in order, one child per rejected element under its key / index) in the raising branch of the node contracts, proved for all inputs; whole-type error listing checked by the bounded driver", "7 C02"),
    "C03": ("`raises only ValidationError` and frame (`modifies` nothing that existed at entry) obligations on every node function and on coerce(), for data an unconstrained value; crash-freedom of the compiled tree on non-JSON data, coercion and input purity additionally by the bounded driver", "7 C03"),
    "C04": ("reference serialization (omission rule from the statement) as run-time postcondition of serialize over generated types / values / option sets", "7 C04"),
    "C05": ("round-trip run-time contracts over the bijective fragment, standard converted types and discriminated unions", "7 C05"),
    "C06": ("agreement of deserialize with an independent validator (jsonschema 2020-12) on deserialization_schema over types x options x data", "7 C06"),
    "C07": ("serialize output validated against serialization_schema by an independent validator under the global exclude settings", "7 C07"),
    "C08": ("check-only / input-returning variants proved to return the input itself and the pass-through node proved equivalent to its fallback on non-instances (node contracts); option equivalences (no_copy, constructors override, precomputed methods, check_type, pass-through flags) by bounded pairwise comparison", "7 C08"),
    "C09": ("ghost invariant `every registered cache cleared after every mutation` proved on reset(), cache(), CacheAwareDict.__setitem__/__delitem__ and ResetCache.__setattr__, so by induction on the history no operation leaves a stale cache; an exhaustive AST scan forces every configuration root through one of these mutators; bounded history driver compares observations with a cold start", "7 C09"),
    "C10": ("validate() proved for every list of validators and object (ghost log of the validators invoked): run at most once, in list order, every validator up to the first failing one that discards fields, after it exactly the later validators none of whose dependencies is discarded, returns iff every validator that ran succeeded, one merged ValidationError otherwise, and termination of the recursion (decreasing list length); the gating segment of ObjectMethod.deserialize (who is a candidate, who is invalid, mock vs construction, validate called once) proved in the thorough tier; dependency discovery, yielded paths and the whole pipeline by the bounded driver over generated validator programs", "7 C10, 12.2"),
    "C11": ("external-name function of the statement compared on every view (deserialize, serialize, schemas, error locations, GraphQL)", "7 C11"),
    "C12": ("conversion node contracts proved for all data and converter outcomes: deserialize(T,d) = f(deserialize(S,d)), rejects exactly what S rejects, ValueError only caught for catch_value_error converters, several deserializers tried in order (first whose source accepts and whose converter does not refuse), serialize(T,v) = serialize(U, g(v)), and default_serialization returns the nearest inheritable serializer of the MRO; placement (dynamic / field / sub-conversion), generic substitution and schema rules by the commuting-square driver", "7 C12, 12.2"),
    "C13": ("Optional / Union / by-type / discriminator node contracts proved against try-each-alternative semantics (accept iff some alternative accepts, image of an accepting alternative, exact discriminator errors); selection guards and serialization side by the bounded driver", "7 C13"),
    "C14": ("coerce() proved against the documented table and to raise only ValidationError; CoercerMethod / Optional / Literal coercion branches proved to re-check the coerced value and to only widen; whole-type monotonicity by the bounded driver", "7 C14"),
    "C15": ("whole-view postconditions over the field-set object proved for the methods installed by with_fields_set (__new__: fresh empty set; __init__: previous + passed parameters - InitVars + init=False / default_as_set fields; __setattr__: exactly that name added), for set_fields / unset_fields / fields_set / get_field_name, for apischema.dataclasses.replace (copy's set = original's + changed real fields) and for the exclude_unset rule of ComplexField.update_result; the computation of the init=False / default_as_set table in with_fields_set's own body and the deserialize-to-constructor link by the bounded driver (operation sequences against a reference model of the tracked set)", "7 C15, 12.2"),
    "C16": ("exhaustive small-scope enumeration of ordering specifications against the statement's placement function on the three views", "7 C16"),
    "C17": ("well-formedness / closure / extraction rules checked on generated type graphs x options x versions", "7 C17"),
    "C18": ("the draft 2019-09 / draft-07 rewrites and isolate_ref proved to be the exact documented key mapping with fresh result and untouched input (vocabulary postconditions); nesting-level application and validator agreement per dialect by the bounded driver", "7 C18"),
    "C19": ("GraphQL schema mirror and execution compared with the model and with (de)serialize over generated operations", "7 C19"),
}


def main():
    path = os.path.join(HERE, "MANIFEST.json")
    with open(path) as f:
        m = json.load(f)
    m["engines"] = [
        {"name": "pyvc", "path": "pyvc/", "serves_properties": sorted(CHECKS), "kind_free_text": "deductive verifier for a Python subset written for this task: re-reads /repo/apischema at every run, symbolic execution per function against sidecar contracts (/verif/contracts), loop invariants, callee contracts at call sites, obligations discharged by z3 5.1 (cvc5 1.0.3 / z3 4.8.12 on the SMT-LIB dump)"},
        {"name": "drivers", "path": "drivers/", "serves_properties": sorted(CHECKS), "kind_free_text": "bounded stand-ins: run-time contracts on the real API over enumerated types / data / histories with oracles written from the property statements (labelled B/E in the evidence, never counted as proved)"},
    ]
    checks = []
    for pid in sorted(CHECKS):
        text, ref = CHECKS[pid]
        import sys

        sys.path.insert(0, HERE)
        from checks.common import LEVELS

        cat = LEVELS[pid]
        if cat != "proof":
            text = text + " -- " + BOUNDED
        checks.append(
            {
                "property_id": pid,
                "quick_cmd": f"./check {pid} --tier quick",
                "thorough_cmd": f"./check {pid} --tier thorough",
                "evidence_file": f"evidence/{pid}.json",
                "replay_cmd_template": f"./check {pid} --replay {{path}}",
                "engine": "pyvc" if cat == "proof" else "drivers",
                "level_claimed": {"category": cat, "text": text, "design_ref": "DESIGN.md section " + ref},
                "level_note": ("bounded: the driver's type / datum / history pools and sizes are written into the evidence; oracles are written from the property statement; jsonschema / graphql-core are trusted as independent oracles" if cat != "proof" else "") + " trusted: pyvc's translation and operation models, the Python semantics assumed by the encoding (integers mathematical, == as identity of canonical values, unbounded stack), z3/cvc5, the specification functions, the induction over types (cases machine-checked, schema not mechanised), contracts marked `assumed` (bad_type, merge_errors) which are checked only at run time; bounded parts are labelled B in the evidence and not counted in `discharged`",
                "technique": TECH_P if cat == "proof" else "bounded run-time contract checking of the real functions (stand-in; no contract within reach of the verifier decides this property)",
            }
        )
    m["checks"] = checks
    claimed = set(CHECKS)
    na = [{"property_id": "C20", "reason": "quantifies over thread schedules; a contract relates pre/post state of one activation and no deductive verifier for concurrent Python exists here (DESIGN.md C20)"}]
    for l in open(os.path.join(HERE, "properties.jsonl")):
        pid = json.loads(l)["id"]
        if pid not in claimed and pid != "C20":
            na.append({"property_id": pid, "reason": "no check"})
    m["not_applicable"] = na
    m["notes"] = "checks rebuild everything from /repo's working tree at each run; VERIF_REPO / VERIF_OUT redirect the self-test to scratch copies"
    with open(path, "w") as f:
        json.dump(m, f, indent=1)
    print("checks:", [c["property_id"] for c in checks])


if __name__ == "__main__":
    main()
