"""Symbolic execution of a Python subset over the theory of theory.py.

One function body (real AST from the working tree) is executed path by path against a
contract; loops are cut by the sidecar invariants; calls use callee contracts (or, for a
handful of tiny helpers flagged `inline`, the callee's real body).  Every potentially
raising operation forks a path with the exception, so `raises` clauses are checked for
all inputs.  The result is a list of proof obligations (path condition, goal).
"""
from __future__ import annotations

import ast
import copy
import os
from dataclasses import dataclass, field
from typing import Any, Callable, Dict, List, Optional, Sequence, Tuple, Union

import z3

from . import source
from . import theory as T
from .theory import Val, K, cls, sub, isinst


class Unsupported(Exception):
    """the function uses a construct outside the subset (tool error, exit 3)"""


class SidecarError(Exception):
    """the sidecar no longer fits the code (tool error, exit 3)"""


# ---------------------------------------------------------------------------
# symbolic values: Val terms, or unboxed bool / int for convenience


@dataclass
class SV:
    kind: str  # 'val' | 'bool' | 'int' | 'tuple' (static python tuple of SV, e.g. handler classes) | 'func'
    t: Any

    def __repr__(self):
        return f"SV({self.kind},{self.t})"


def sv_val(t) -> SV:
    return SV("val", t)


def sv_bool(t) -> SV:
    return SV("bool", t)


def sv_int(t) -> SV:
    return SV("int", t)


def as_val(v: SV):
    if v.kind == "val":
        return v.t
    if v.kind == "bool":
        return z3.If(v.t, T.True_, T.False_)
    if v.kind == "int":
        return T.mkint(v.t)
    raise Unsupported(f"static value {v} used as a run-time value")


def as_int(v: SV):
    if v.kind == "int":
        return v.t
    if v.kind == "val":
        return T.ival(v.t)
    if v.kind == "bool":
        return z3.If(v.t, 1, 0)
    raise Unsupported("int of static")


@dataclass
class Obligation:
    name: str
    pc: List[Any]
    goal: Any
    where: str = ""
    kind: str = "post"  # post | inv-entry | inv-preserved | pre | raises | frame | defined


@dataclass
class State:
    env: Dict[str, SV]
    heap: Dict[str, Any]
    pc: List[Any]
    exc_stack: List[Any] = field(default_factory=list)  # currently handled exceptions
    ghost: Dict[str, Any] = field(default_factory=dict)

    def fork(self) -> "State":
        return State(dict(self.env), dict(self.heap), list(self.pc), list(self.exc_stack), dict(self.ghost))

    def assume(self, *facts) -> "State":
        for f in facts:
            self.pc.append(f)
        return self


@dataclass
class Outcome:
    kind: str  # normal | return | raise | break | continue
    state: State
    value: Any = None  # SV for return, Val term for raise


class Heap:
    """accessors over a State's heap arrays"""

    def __init__(self, ex: "Executor", st: State):
        self.ex = ex
        self.st = st

    def arr(self, name: str):
        if name not in self.st.heap:
            self.ex.touch_heap(name)
            self.st.heap[name] = T.heap0(name)
        return self.st.heap[name]

    def llen(self, o):
        return self.arr("llen")[o]

    def lget(self, o, i):
        return self.arr("lget")[o][i]

    def dhas(self, o, k):
        return self.arr("dhas")[o][k]

    def dget(self, o, k):
        return self.arr("dget")[o][k]

    def dlen(self, o):
        return self.arr("dlen")[o]

    def attr(self, o, name: str):
        return self.arr(T.attr_heap(name))[o]

    def alloc(self, o):
        return self.arr("alloc")[o]

    def set(self, name: str, value):
        self.arr(name)
        self.st.heap[name] = value


class Executor:
    def __init__(self, contract, registry, budget_paths: int = 4000):
        self.contract = contract
        self.registry = registry
        self.fn = source.find_function(contract.target)
        self.module = self.fn.module
        self.obligations: List[Obligation] = []
        self.heap_names: List[str] = ["alloc", "llen", "lget", "dhas", "dget", "dlen"]
        self.fresh_n = 0
        self.loop_ordinal = 0
        self.paths = 0
        self.budget_paths = budget_paths
        self.notes: List[str] = []
        self._prune_solver: Optional[z3.Solver] = None
        self.assumed_calls: List[str] = []

    # -- utilities ---------------------------------------------------------
    def touch_heap(self, name: str):
        if name not in self.heap_names:
            self.heap_names.append(name)

    def fresh(self, hint: str, sort=Val):
        self.fresh_n += 1
        return z3.Const(f"{hint}!{self.fresh_n}", sort)

    def where(self, node: ast.AST) -> str:
        return f"{self.fn.path}:{getattr(node, 'lineno', '?')}"

    def oblige(self, name: str, st: State, goal, node=None, kind="post"):
        self.obligations.append(Obligation(name, list(st.pc), goal, self.where(node) if node is not None else "", kind))

    def feasible(self, st: State) -> bool:
        """cheap pruning of infeasible paths (sound: a path is dropped only on `unsat`).
        Only the class / primitive axioms and the quantifier-free part of the path condition
        are given to the pruning solver: enough for the type tests, None tests and flags that
        make most infeasible paths infeasible, and two orders of magnitude cheaper."""
        if self._prune_solver is None or self._prune_version != T.classes().version:
            self._prune_version = T.classes().version
            s = z3.Solver()
            s.set("timeout", 100)
            try:
                s.set("smt.mbqi", False)
            except z3.Z3Exception:
                pass
            for a in T.base_axioms():
                s.add(a)
            self._prune_solver = s
        s = self._prune_solver
        s.push()
        try:
            for f in st.pc:
                if not _has_quantifier(f):
                    s.add(f)
            r = s.check()
        finally:
            s.pop()
        return r != z3.unsat

    def axioms(self) -> List[Any]:
        key = (T.classes().version, tuple(self.heap_names), len(T._strings))
        if getattr(self, "_ax_key", None) != key:
            attrs = [n[2:] for n in self.heap_names if n.startswith("a:")]
            ax = T.base_axioms() + T.heap_wf_axioms(attrs)
            ax += self.registry.spec_axioms()
            ax += self.class_axioms()
            self._ax_key, self._ax = key, ax
        return self._ax

    def class_axioms(self) -> List[Any]:
        """refinement axioms of the node classes this (Layer-2) contract relies on; only those
        whose own proof succeeded in this run (PYVC_PROVEN), all of them in a stand-alone run"""
        uses = getattr(self.contract, "uses_axioms_of", [])
        if not uses:
            return []
        import json
        import os

        from .axioms import class_axiom

        proven = os.environ.get("PYVC_PROVEN")
        allowed = set(json.loads(proven)) if proven else None
        self.class_axiom_of: Dict[int, str] = {}
        out: List[Any] = []
        self.axioms_used = []
        self.axioms_withdrawn = []
        for t in uses:
            c = self.registry.contract_for(t)
            if c is None:
                raise SidecarError(f"{self.contract.target} relies on the axiom of {t}, which has no contract")
            if allowed is not None and t not in allowed:
                self.axioms_withdrawn.append(t)
                continue
            ca = class_axiom(c)
            out.extend(ca)
            # remembered per class: an obligation is discharged with the refinement axioms of the
            # classes it mentions only (dropping hypotheses is sound; it keeps e-matching focused)
            cname = T.classes().local(t.split(":")[1].split(".")[0], t.split(":")[0])
            for a in ca:
                self.class_axiom_of[a.get_id()] = "C_" + cname
            self.axioms_used.append(t)
        if hasattr(self.contract, "extra_axioms"):
            out.extend(self.contract.extra_axioms(self))
        return out

    # -- allocation ----------------------------------------------------------
    def new_obj(self, st: State, klass, hint="obj"):
        h = Heap(self, st)
        o = self.fresh(hint)
        st.assume(z3.Not(h.alloc(o)), cls(o) == klass)
        h.set("alloc", z3.Store(h.arr("alloc"), o, True))
        return o

    def new_list(self, st: State, length, items_arr, klass=None, hint="list"):
        h = Heap(self, st)
        o = self.new_obj(st, klass if klass is not None else K("list"), hint)
        h.set("llen", z3.Store(h.arr("llen"), o, length))
        h.set("lget", z3.Store(h.arr("lget"), o, items_arr))
        return o

    def new_dict(self, st: State, has_arr, get_arr, length, klass=None, hint="dict"):
        h = Heap(self, st)
        o = self.new_obj(st, klass if klass is not None else K("dict"), hint)
        h.set("dhas", z3.Store(h.arr("dhas"), o, has_arr))
        h.set("dget", z3.Store(h.arr("dget"), o, get_arr))
        h.set("dlen", z3.Store(h.arr("dlen"), o, length))
        return o

    def check_store_allowed(self, st: State, o, node):
        """frame: only objects allocated by this activation, or listed in `modifies`, are written"""
        mods = self.modifies_terms
        allowed = z3.Or(z3.Not(T.alloc0[o]), *[o == m for m in mods])
        self.oblige("frame: store only to fresh or `modifies` objects", st, allowed, node, kind="frame")

    # -- truthiness ----------------------------------------------------------
    def truthy(self, st: State, v: SV):
        if v.kind == "bool":
            return v.t
        if v.kind == "int":
            return v.t != 0
        if v.kind in ("tuple",):
            return z3.BoolVal(len(v.t) > 0)
        if v.kind == "func":
            return z3.BoolVal(True)
        t = v.t
        if z3.is_app(t):
            if t.eq(T.True_):
                return z3.BoolVal(True)
            if t.eq(T.False_) or t.eq(T.None_):
                return z3.BoolVal(False)
            if t.decl().kind() == z3.Z3_OP_ITE:
                return z3.If(t.arg(0), self.truthy(st, sv_val(t.arg(1))), self.truthy(st, sv_val(t.arg(2))))
        h = Heap(self, st)
        c = cls(t)
        return z3.If(
            t == T.None_,
            False,
            z3.If(
                c == K("bool"),
                t == T.True_,
                z3.If(
                    sub(c, K("int")),
                    T.ival(t) != 0,
                    z3.If(
                        z3.Or(sub(c, K("list")), sub(c, K("tuple"))),
                        h.llen(t) != 0,
                        z3.If(
                            z3.Or(sub(c, K("dict")), sub(c, K("set")), sub(c, K("frozenset"))),
                            h.dlen(t) != 0,
                            z3.If(sub(c, K("str")), T.slen(t) != 0, T.truthy_other(t)),
                        ),
                    ),
                ),
            ),
        )

    # -- running a function --------------------------------------------------
    def run(self) -> List[Obligation]:
        c = self.contract
        fn = self.fn.node
        params = [a.arg for a in fn.args.args] + [a.arg for a in fn.args.kwonlyargs]
        if fn.args.vararg or fn.args.kwarg or fn.args.kwonlyargs:
            if not getattr(c, "allow_star", False):
                raise Unsupported("*args / **kwargs / keyword-only parameters")
        st = State({}, {}, [])
        self.param_terms: Dict[str, Any] = {}
        for p in params:
            t = z3.Const("p_" + p, Val)
            self.param_terms[p] = t
            st.env[p] = sv_val(t)
            st.assume(T.alloc0[t])
        if fn.args.vararg:
            t = z3.Const("p_" + fn.args.vararg.arg, Val)
            self.param_terms[fn.args.vararg.arg] = t
            st.env[fn.args.vararg.arg] = sv_val(t)
            st.assume(T.alloc0[t], cls(t) == K("tuple"))
        if fn.args.kwarg:
            t = z3.Const("p_" + fn.args.kwarg.arg, Val)
            self.param_terms[fn.args.kwarg.arg] = t
            st.env[fn.args.kwarg.arg] = sv_val(t)
            # the ** dictionary is built by the call: it belongs to this activation (not an entry object)
            st.assume(z3.Not(T.alloc0[t]), cls(t) == K("dict"))
            hk = Heap(self, st)
            hk.set("alloc", z3.Store(hk.arr("alloc"), t, True))
        # closure variables (free variables of nested functions), declared by the sidecar
        for name in getattr(c, "free_vars", []):
            t = z3.Const("fv_" + name, Val)
            self.param_terms[name] = t
            st.env[name] = sv_val(t)
            st.assume(T.alloc0[t])
        self.ctx = SpecCtx(self, st, self.param_terms)
        self.modifies_terms = [m[0] if isinstance(m, tuple) else m for m in (c.modifies(self.ctx) if hasattr(c, "modifies") else [])]
        for r in c.requires(self.ctx):
            st.assume(r)
        # valid axiom instances (e.g. finite-set cardinality) the proof needs; reported as assumptions
        for lm in (c.lemmas(self.ctx) if hasattr(c, "lemmas") else []):
            st.assume(lm)
        self.entry_pc = list(st.pc)
        # vacuity guard: `False` under the preconditions, lemmas and axioms must NOT be provable
        self.obligations.append(Obligation("vacuity guard: preconditions, lemmas and axioms are not contradictory", list(st.pc), z3.BoolVal(False), self.where(fn), "vacuity"))
        outs = self.exec_block(fn.body, st)
        for o in outs:
            self.finish(o, fn)
        return self.obligations

    def finish(self, o: Outcome, node):
        c = self.contract
        if o.kind == "normal":
            o = Outcome("return", o.state, sv_val(T.None_))
        if o.kind in ("break", "continue"):
            raise Unsupported("break/continue outside loop")
        st = o.state
        post = PostCtx(self, st, self.param_terms, o)
        if o.kind == "raise":
            allowed = [isinst(o.value, n) for n in getattr(c, "raises", [])]
            self.oblige(
                "raises only " + (", ".join(getattr(c, "raises", [])) or "nothing"),
                st,
                z3.Or(*allowed) if allowed else z3.BoolVal(False),
                getattr(o, "node", node),
                kind="raises",
            )
        # intermediate steps of the sidecar (lemmas at the exit): each is proved under what is known
        # so far, then assumed for the later steps and for the postconditions
        if hasattr(c, "steps"):
            for name, goal in c.steps(post):
                self.oblige("step: " + name, st, goal, node, kind="post")
                st.assume(goal)
        for name, goal in c.ensures(post).items():
            self.oblige(name, st, goal, node, kind="post")
        if hasattr(c, "allocates"):
            for idx, entry in enumerate(c.allocates(post)):
                klass, term = entry[0], entry[1]
                guard = entry[2] if len(entry) > 2 else z3.BoolVal(True)
                self.oblige(f"allocates #{idx}: fresh {klass}", st, z3.Implies(guard, z3.And(post.fresh(term), cls(term) == K(klass))), node, kind="post")
        # frame: objects that existed at entry and are not in `modifies` are unchanged
        if getattr(c, "check_frame", True):
            v = self.fresh("fo")
            mods = self.modifies_terms
            goals = []
            for hn in list(st.heap):
                if hn == "alloc" or hn.startswith(("g:", "gi:")):
                    continue  # ghost state is specification state: described by the ensures, not framed
                cur, old = st.heap[hn], T.heap0(hn)
                if cur.eq(old):
                    continue
                goals.append(cur[v] == old[v])
            if goals:
                self.oblige(
                    "frame: objects that existed at entry (outside `modifies`) are unchanged",
                    st,
                    z3.Implies(z3.And(T.alloc0[v], *[v != m for m in mods]), z3.And(*goals)),
                    node,
                    kind="frame",
                )

    # -- statements ------------------------------------------------------------
    def exec_block(self, body: Sequence[ast.stmt], st: State) -> List[Outcome]:
        outs = [Outcome("normal", st)]
        for stmt in body:
            nxt: List[Outcome] = []
            for o in outs:
                if o.kind != "normal":
                    nxt.append(o)
                    continue
                nxt.extend(self.exec_stmt(stmt, o.state))
            outs = nxt
            self.paths = max(self.paths, len(outs))
            if len(outs) > self.budget_paths:
                raise Unsupported(f"path budget exceeded ({len(outs)} paths)")
        return outs

    def exec_stmt(self, node: ast.stmt, st: State) -> List[Outcome]:
        m = getattr(self, "stmt_" + type(node).__name__, None)
        try:
            if m is None:
                raise Unsupported(f"statement {type(node).__name__} at {self.where(node)}")
            return m(node, st)
        except (Unsupported, SidecarError):
            # a construct outside the subset on a path the cheap pruning could not exclude:
            # it is harmless iff the path is infeasible (checked with the full solver)
            if self.definitely_infeasible(st):
                return []
            raise

    def definitely_infeasible(self, st: State) -> bool:
        s = z3.Solver()
        s.set("timeout", 8000)
        s.set("smt.mbqi", False)
        for a in self.axioms():
            s.add(a)
        for f in st.pc:
            s.add(f)
        return s.check() == z3.unsat

    def stmt_Pass(self, node, st):
        return [Outcome("normal", st)]

    def stmt_Expr(self, node, st):
        if isinstance(node.value, ast.Constant):
            return [Outcome("normal", st)]  # docstring
        return [self._exc_or(o, lambda s, v: Outcome("normal", s)) for o in self.eval(node.value, st)]

    def _exc_or(self, ev, f):
        s, kind, v = ev
        if kind == "exc":
            o = Outcome("raise", s, v)
            return o
        return f(s, v)

    def stmt_Return(self, node, st):
        if node.value is None:
            return [Outcome("return", st, sv_val(T.None_))]
        return [self._exc_or(e, lambda s, v: Outcome("return", s, v)) for e in self.eval(node.value, st)]

    def stmt_Raise(self, node, st):
        if node.exc is None:
            if not st.exc_stack:
                raise Unsupported("bare raise outside handler")
            return [Outcome("raise", st, st.exc_stack[-1])]
        outs = []
        for s, kind, v in self.eval(node.exc, st):
            if kind == "exc":
                outs.append(Outcome("raise", s, v))
                continue
            if v.kind == "class":
                # raise SomeError  (class, no call): instantiate
                o = self.new_obj(s, v.t, "exc")
                outs.append(Outcome("raise", s, o))
            else:
                outs.append(Outcome("raise", s, as_val(v)))
        return outs

    def stmt_Assert(self, node, st):
        outs = []
        for s, kind, v in self.eval(node.test, st):
            if kind == "exc":
                outs.append(Outcome("raise", s, v))
                continue
            c = self.truthy(s, v)
            ok = s.fork().assume(c)
            bad = s.fork().assume(z3.Not(c))
            if self.feasible(ok):
                outs.append(Outcome("normal", ok))
            if self.feasible(bad):
                e = self.new_obj(bad, K("AssertionError"), "exc")
                outs.append(Outcome("raise", bad, e))
        return outs

    def stmt_AnnAssign(self, node, st):
        if node.value is None:
            return [Outcome("normal", st)]
        return self._assign([node.target], node.value, st)

    def stmt_Assign(self, node, st):
        return self._assign(node.targets, node.value, st)

    def _assign(self, targets, value, st):
        outs = []
        if len(targets) == 1 and isinstance(targets[0], ast.Tuple) and isinstance(value, ast.Tuple) and len(targets[0].elts) == len(value.elts) and not any(isinstance(e, ast.Starred) for e in value.elts + targets[0].elts):
            # a, b = x, y : the right-hand sides are evaluated left to right, then bound
            for s, kind, vs in self.eval_many(value.elts, st):
                if kind == "exc":
                    outs.append(Outcome("raise", s, vs))
                    continue
                cur = [(s, None)]
                for tgt, v in zip(targets[0].elts, vs):
                    nxt = []
                    for s2, e in cur:
                        nxt.extend(self.assign_to(tgt, v, s2) if e is None else [(s2, e)])
                    cur = nxt
                for s2, exc in cur:
                    outs.append(Outcome("raise", s2, exc) if exc is not None else Outcome("normal", s2))
            return outs
        for s, kind, v in self.eval(value, st):
            if kind == "exc":
                outs.append(Outcome("raise", s, v))
                continue
            cur = [(s, None)]
            for tgt in targets:
                nxt = []
                for s2, _ in cur:
                    nxt.extend(self.assign_to(tgt, v, s2))
                cur = nxt
            for s2, exc in cur:
                outs.append(Outcome("raise", s2, exc) if exc is not None else Outcome("normal", s2))
        return outs

    def assign_to(self, tgt, v: SV, st: State) -> List[Tuple[State, Any]]:
        """returns [(state, exception-or-None)]"""
        if isinstance(tgt, ast.Name):
            st.env[tgt.id] = v
            return [(st, None)]
        if isinstance(tgt, (ast.Tuple, ast.List)):
            if v.kind == "tuple":
                if len(v.t) != len(tgt.elts):
                    raise Unsupported("unpacking arity")
                res = [(st, None)]
                for sub_t, sub_v in zip(tgt.elts, v.t):
                    nxt = []
                    for s, e in res:
                        if e is not None:
                            nxt.append((s, e))
                        else:
                            nxt.extend(self.assign_to(sub_t, sub_v, s))
                    res = nxt
                return res
            # unpack a run-time sequence: requires the `kinds` hint to say it is a tuple of that arity
            raise Unsupported(f"unpacking a run-time value at {self.where(tgt)}")
        if isinstance(tgt, ast.Attribute):
            outs = []
            for s, kind, o in self.eval(tgt.value, st):
                if kind == "exc":
                    outs.append((s, o))
                    continue
                ot = as_val(o)
                self.check_store_allowed(s, ot, tgt)
                self.on_store(s, ot)
                h = Heap(self, s)
                name = T.attr_heap(tgt.attr)
                h.set(name, z3.Store(h.arr(name), ot, as_val(v)))
                outs.append((s, None))
            return outs
        if isinstance(tgt, ast.Subscript):
            outs = []
            for s, kind, o in self.eval(tgt.value, st):
                if kind == "exc":
                    outs.append((s, o))
                    continue
                for s2, kind2, k in self.eval(tgt.slice, s):
                    if kind2 == "exc":
                        outs.append((s2, k))
                        continue
                    outs.extend(self.store_item(s2, as_val(o), k, v, tgt))
            return outs
        raise Unsupported(f"assignment target {type(tgt).__name__}")

    def container_kind(self, node: ast.expr) -> str:
        txt = ast.unparse(node)
        kinds = getattr(self.contract, "kinds", {})
        if txt in kinds:
            return kinds[txt]
        raise SidecarError(f"no container kind hint for `{txt}` at {self.where(node)} in {self.contract.target}")

    def store_item(self, st: State, o, k: SV, v: SV, node) -> List[Tuple[State, Any]]:
        kind = self.container_kind(node.value)
        h = Heap(self, st)
        outs: List[Tuple[State, Any]] = []
        if kind == "list":
            ok = st.fork().assume(isinst(o, "list"))
            bad = st.fork().assume(z3.Not(isinst(o, "list")))
            if self.feasible(bad):
                outs.append((bad, self.new_obj(bad, K("TypeError"), "exc")))
            i = as_int(k)
            hk = Heap(self, ok)
            n = hk.llen(o)
            inb = z3.And(i >= -n, i < n)
            oob = ok.fork().assume(z3.Not(inb))
            if self.feasible(oob):
                outs.append((oob, self.new_obj(oob, K("IndexError"), "exc")))
            ok.assume(inb)
            idx = z3.If(i < 0, i + n, i)
            self.check_store_allowed(ok, o, node)
            hk.set("lget", z3.Store(hk.arr("lget"), o, z3.Store(hk.arr("lget")[o], idx, as_val(v))))
            outs.append((ok, None))
            return outs
        if kind == "dict":
            ok = st.fork().assume(isinst(o, "dict"))
            bad = st.fork().assume(z3.Not(isinst(o, "dict")))
            if self.feasible(bad):
                outs.append((bad, self.new_obj(bad, K("TypeError"), "exc")))
            kt = as_val(k)
            unh = ok.fork().assume(z3.Not(T.hashable(kt)))
            if self.feasible(unh):
                outs.append((unh, self.new_obj(unh, K("TypeError"), "exc")))
            ok.assume(T.hashable(kt))
            self.check_store_allowed(ok, o, node)
            self.dict_store(ok, o, kt, as_val(v))
            outs.append((ok, None))
            return outs
        raise Unsupported(f"store into container kind {kind}")

    def on_store(self, st: State, o):
        hook = getattr(self.contract, "on_store", None)
        if hook is not None:
            hook(self, st, o)

    def dict_store(self, st: State, o, kt, vt):
        self.on_store(st, o)
        h = Heap(self, st)
        had = h.dhas(o, kt)
        h.set("dlen", z3.Store(h.arr("dlen"), o, h.dlen(o) + z3.If(had, 0, 1)))
        h.set("dhas", z3.Store(h.arr("dhas"), o, z3.Store(h.arr("dhas")[o], kt, True)))
        h.set("dget", z3.Store(h.arr("dget"), o, z3.Store(h.arr("dget")[o], kt, vt)))

    def stmt_AugAssign(self, node, st):
        if not isinstance(node.target, ast.Name):
            raise Unsupported("augmented assignment to non-name")
        binop = ast.BinOp(left=ast.Name(id=node.target.id, ctx=ast.Load()), op=node.op, right=node.value)
        ast.copy_location(binop, node)
        ast.fix_missing_locations(binop)
        return self._assign([node.target], binop, st)

    def stmt_If(self, node, st):
        outs = []
        for s, kind, v in self.eval(node.test, st):
            if kind == "exc":
                outs.append(Outcome("raise", s, v))
                continue
            c = self.truthy(s, v)
            c = z3.simplify(c)
            st_t = s.fork().assume(c)
            st_f = s.fork().assume(z3.Not(c))
            if self.feasible(st_t):
                outs.extend(self.exec_block(node.body, st_t))
            if self.feasible(st_f):
                outs.extend(self.exec_block(node.orelse, st_f) if node.orelse else [Outcome("normal", st_f)])
        return outs

    def stmt_Try(self, node, st):
        if node.finalbody:
            raise Unsupported("try/finally")
        outs: List[Outcome] = []
        for o in self.exec_block(node.body, st):
            if o.kind == "normal":
                if node.orelse:
                    outs.extend(self.exec_block(node.orelse, o.state))
                else:
                    outs.append(o)
            elif o.kind == "raise":
                outs.extend(self.dispatch_handlers(node.handlers, o))
            else:
                outs.append(o)
        return outs

    def dispatch_handlers(self, handlers, o: Outcome) -> List[Outcome]:
        outs: List[Outcome] = []
        st = o.state
        exc = o.value
        remaining = st
        for hd in handlers:
            if hd.type is None:
                match = z3.BoolVal(True)
            else:
                names = self.handler_classes(hd.type)
                match = z3.Or(*[isinst(exc, n) for n in names])
            s_m = remaining.fork().assume(match)
            s_n = remaining.fork().assume(z3.Not(match))
            if self.feasible(s_m):
                if hd.name:
                    s_m.env[hd.name] = sv_val(exc)
                s_m.exc_stack.append(exc)
                for ho in self.exec_block(hd.body, s_m):
                    if ho.state.exc_stack and ho.state.exc_stack[-1] is exc:
                        ho.state.exc_stack.pop()
                    outs.append(ho)
            remaining = s_n
            if not self.feasible(remaining):
                remaining = None
                break
        if remaining is not None:
            outs.append(Outcome("raise", remaining, exc))
        return outs

    def handler_classes(self, node) -> List[str]:
        if isinstance(node, ast.Name):
            return [T.classes().local(node.id, self.module)]
        if isinstance(node, ast.Tuple):
            return [n for e in node.elts for n in self.handler_classes(e)]
        raise Unsupported("exception handler type expression")

    # -- loops -------------------------------------------------------------------
    def assigned_names(self, body) -> List[str]:
        names: List[str] = []

        class V(ast.NodeVisitor):
            def visit_Name(s, n):
                if isinstance(n.ctx, ast.Store) and n.id not in names:
                    names.append(n.id)

            def visit_ExceptHandler(s, n):
                if n.name and n.name not in names:
                    names.append(n.name)
                s.generic_visit(n)

            def visit_FunctionDef(s, n):
                if n.name not in names:
                    names.append(n.name)

            def visit_Lambda(s, n):
                pass

            def visit_ListComp(s, n):
                pass

            visit_DictComp = visit_SetComp = visit_GeneratorExp = visit_ListComp

        for stmt in body:
            V().visit(stmt)
        return names

    def havoc(self, st: State, names: List[str], tag: str):
        """havoc the locals assigned in a loop and every heap array (entry objects outside
        `modifies` keep their contents; objects allocated by this activation are described by
        the invariant)"""
        for n in names:
            if n in st.env:
                st.env[n] = sv_val(self.fresh(f"{n}_{tag}"))
        h = Heap(self, st)
        old_alloc = h.arr("alloc")
        for hn in list(self.heap_names):
            old = h.arr(hn)
            new = self.fresh(hn.replace(":", "_") + "_" + tag, T.heap_sort(hn))
            v = z3.Const("fv", Val)
            if hn == "alloc":
                st.assume(T.forall([v], z3.Implies(old[v], new[v]), patterns=[new[v]]))
            elif hn.startswith(("g:", "gi:")):
                pass  # ghost arrays are fully havocked: the invariant says what is known about them
            else:
                mods = self.modifies_terms
                st.assume(
                    T.forall(
                        [v],
                        z3.Implies(z3.And(T.alloc0[v], *[v != m for m in mods]), new[v] == old[v]),
                        patterns=[new[v]],
                    )
                )
            st.heap[hn] = new

    def stmt_For(self, node, st):
        if node.orelse:
            # for/else without `break` in the body: the else block is the code after the loop
            def has_break(stmts):
                for n in stmts:
                    for x in ast.walk(n):
                        if isinstance(x, ast.Break):
                            return True
                return False

            if has_break(node.body):
                raise Unsupported("for/else with break")
            plain = ast.For(target=node.target, iter=node.iter, body=node.body, orelse=[], type_comment=None)
            ast.copy_location(plain, node)
            # keep the identity used for the loop ordinal
            self._for_alias = getattr(self, "_for_alias", {})
            self._for_alias[id(plain)] = id(node)
            outs = []
            for o in self.stmt_For(plain, st):
                if o.kind == "normal":
                    outs.extend(self.exec_block(node.orelse, o.state))
                else:
                    outs.append(o)
            return outs
        if not hasattr(self, "_loop_ids"):
            self._loop_ids = {}
        owner = getattr(self, "_cur_fn", self.fn.node)
        if id(owner) not in self._loop_ids:
            self._loop_ids[id(owner)] = {id(n): k for k, n in enumerate(x for x in ast.walk(owner) if isinstance(x, (ast.For, ast.While)))}
            # ast.walk is breadth-first; renumber in source order
            fors = sorted((x for x in ast.walk(owner) if isinstance(x, (ast.For, ast.While))), key=lambda x: (x.lineno, x.col_offset))
            self._loop_ids[id(owner)] = {id(n): k for k, n in enumerate(fors)}
        nid = getattr(self, "_for_alias", {}).get(id(node), id(node))
        if nid not in self._loop_ids[id(owner)]:
            raise Unsupported(f"loop inside an inlined callee at {self.where(node)}")
        ordinal = self._loop_ids[id(owner)][nid]
        spec = getattr(self.contract, "loops", {}).get(ordinal)
        if isinstance(spec, str):
            spec = getattr(self.contract, spec)
        if spec is None:
            raise SidecarError(f"no invariant for loop #{ordinal} at {self.where(node)} of {self.contract.target}")
        outs: List[Outcome] = []
        for s, kind, header in self.eval_loop_header(node, st):
            if kind == "exc":
                outs.append(Outcome("raise", s, header))
                continue
            outs.extend(self.run_loop(node, s, header, spec, ordinal))
        return outs

    def eval_loop_header(self, node, st):
        """-> [(state, 'ok', LoopHeader) | (state, 'exc', exc)]"""
        it = node.iter
        res = []
        if isinstance(it, ast.Call) and isinstance(it.func, ast.Name) and it.func.id == "range":
            args = it.args
            if len(args) == 1:
                lo_evs = [(st, "val", sv_int(z3.IntVal(0)))]
                hi_node = args[0]
            elif len(args) == 2:
                lo_evs = self.eval(args[0], st)
                hi_node = args[1]
            else:
                raise Unsupported("range with step")
            for s, k, lo in lo_evs:
                if k == "exc":
                    res.append((s, "exc", lo))
                    continue
                for s2, k2, hi in self.eval(hi_node, s):
                    if k2 == "exc":
                        res.append((s2, "exc", hi))
                        continue
                    res.append((s2, "ok", ("range", as_int(lo), as_int(hi), node.target)))
            return res
        enum = False
        seq_node = it
        if isinstance(it, ast.Call) and isinstance(it.func, ast.Name) and it.func.id == "enumerate":
            enum = True
            seq_node = it.args[0]
        if isinstance(seq_node, ast.Call) and isinstance(seq_node.func, ast.Attribute) and seq_node.func.attr in ("items", "keys", "values") and not seq_node.args:
            mode = seq_node.func.attr
            base = seq_node.func.value
            for s, k, d in self.eval(base, st):
                if k == "exc":
                    res.append((s, "exc", d))
                    continue
                res.append((s, "ok", ("dict", as_val(d), mode, node.target, base)))
            return res
        kind = self.container_kind(seq_node)
        for s, k, v in self.eval(seq_node, st):
            if k == "exc":
                res.append((s, "exc", v))
                continue
            if kind in ("list", "tuple", "seq"):
                res.append((s, "ok", ("seq", as_val(v), enum, node.target, seq_node)))
            elif kind in ("dict", "set"):
                res.append((s, "ok", ("dict", as_val(v), "keys", node.target, seq_node)))
            else:
                raise Unsupported(f"iteration over kind {kind}")
        return res

    def run_loop(self, node, st: State, header, spec, ordinal) -> List[Outcome]:
        outs: List[Outcome] = []
        tag = f"L{ordinal}"
        assigned = self.assigned_names(node.body) + self.assigned_names([ast.Expr(value=node.target)])
        tgt_names = [n.id for n in ast.walk(node.target) if isinstance(n, ast.Name)]
        hkind = header[0]
        h = Heap(self, st)
        if hkind == "range":
            _, lo, hi, target = header
            idx0, n_items = lo, hi
            seq = None
        elif hkind == "seq":
            _, seq, enum, target, seq_node = header
            # iterating a non-sequence raises TypeError
            isseq = z3.Or(isinst(seq, "list"), isinst(seq, "tuple"))
            bad = st.fork().assume(z3.Not(isseq))
            if self.feasible(bad):
                outs.append(Outcome("raise", bad, self.new_obj(bad, K("TypeError"), "exc")))
            st.assume(isseq)
            idx0, n_items = z3.IntVal(0), h.llen(seq)
        else:
            _, dct, mode, target, base = header
            isd = z3.Or(isinst(dct, "dict"), isinst(dct, "set"), isinst(dct, "frozenset"))
            bad = st.fork().assume(z3.Not(isd))
            if self.feasible(bad):
                outs.append(Outcome("raise", bad, self.new_obj(bad, K("TypeError" if mode == "keys" else "AttributeError"), "exc")))
            st.assume(isd)
        entry_heap = dict(st.heap)

        def inv(state: State, index, seen) -> List[Any]:
            lc = LoopCtx(self, state, self.param_terms, index=index, seen=seen, entry_heap=entry_heap)
            return list(spec(lc))

        if hkind in ("range", "seq"):
            # entry
            for j, g in enumerate(inv(st, idx0, None)):
                self.oblige(f"loop {ordinal}: invariant #{j} holds on entry", st, g, node, kind="inv-entry")
            # arbitrary iteration
            it_st = st.fork()
            self.havoc(it_st, [n for n in assigned if n not in tgt_names], tag)
            i = self.fresh("i_" + tag, T.I)
            it_st.assume(i >= idx0, i < n_items)
            if hkind == "seq":
                hh = Heap(self, it_st)
                # the iterated sequence is unchanged (checked at the back edge)
                it_st.assume(hh.llen(seq) == entry_heap_get(entry_heap, "llen")[seq])
                it_st.assume(hh.arr("lget")[seq] == entry_heap_get(entry_heap, "lget")[seq])
            for g in inv(it_st, i, None):
                it_st.assume(g)
            if hkind == "range":
                self._bind_target(target, sv_int(i), it_st)
            else:
                elt = Heap(self, it_st).lget(seq, i)
                if enum:
                    if not (isinstance(target, ast.Tuple) and len(target.elts) == 2):
                        raise Unsupported("enumerate target")
                    self._bind_target(target.elts[0], sv_int(i), it_st)
                    self._bind_target(target.elts[1], sv_val(elt), it_st)
                else:
                    self._bind_target(target, sv_val(elt), it_st)
            if self.feasible(it_st):
                for o in self.exec_block(node.body, it_st):
                    if o.kind in ("normal", "continue"):
                        if hkind == "seq":
                            hh = Heap(self, o.state)
                            self.oblige(
                                f"loop {ordinal}: iterated sequence not mutated",
                                o.state,
                                z3.And(hh.llen(seq) == entry_heap_get(entry_heap, "llen")[seq], hh.arr("lget")[seq] == entry_heap_get(entry_heap, "lget")[seq]),
                                node,
                                kind="inv-preserved",
                            )
                        for j, g in enumerate(inv(o.state, i + 1, None)):
                            self.oblige(f"loop {ordinal}: invariant #{j} preserved", o.state, g, node, kind="inv-preserved")
                    elif o.kind == "break":
                        outs.append(Outcome("normal", o.state))
                    else:
                        outs.append(o)
            # exit
            ex_st = st.fork()
            self.havoc(ex_st, [n for n in assigned if n not in tgt_names] , tag + "x")
            # loop variables keep their last value; modelled as havoc (sound over-approximation)
            for n in tgt_names:
                if n in ex_st.env or True:
                    ex_st.env[n] = sv_val(self.fresh(f"{n}_{tag}x"))
            n_end = z3.If(n_items >= idx0, n_items, idx0)
            if hkind == "seq":
                hh = Heap(self, ex_st)
                ex_st.assume(hh.llen(seq) == entry_heap_get(entry_heap, "llen")[seq])
                ex_st.assume(hh.arr("lget")[seq] == entry_heap_get(entry_heap, "lget")[seq])
            for g in inv(ex_st, n_end, None):
                ex_st.assume(g)
            if self.feasible(ex_st):
                outs.append(Outcome("normal", ex_st))
            return outs
        # dict / set iteration with a ghost `seen` set
        seen0 = z3.K(Val, False)
        for j, g in enumerate(inv(st, None, seen0)):
            self.oblige(f"loop {ordinal}: invariant #{j} holds on entry", st, g, node, kind="inv-entry")
        it_st = st.fork()
        self.havoc(it_st, [n for n in assigned if n not in tgt_names], tag)
        seen = self.fresh("seen_" + tag, T.ArrVB)
        key = self.fresh("key_" + tag)
        hh = Heap(self, it_st)
        e_has = entry_heap_get(entry_heap, "dhas")[dct]
        e_get = entry_heap_get(entry_heap, "dget")[dct]
        kk = z3.Const("kk", Val)
        it_st.assume(T.forall([kk], z3.Implies(seen[kk], e_has[kk]), patterns=[seen[kk]]))
        it_st.assume(e_has[key], z3.Not(seen[key]), T.hashable(key))
        it_st.assume(hh.arr("dhas")[dct] == e_has, hh.arr("dget")[dct] == e_get, hh.dlen(dct) == entry_heap_get(entry_heap, "dlen")[dct])
        it_st.assume(z3.Implies(T.alloc0[dct], z3.And(T.alloc0[key], T.alloc0[e_get[key]])))
        for g in inv(it_st, None, seen):
            it_st.assume(g)
        if mode == "items":
            if not (isinstance(target, ast.Tuple) and len(target.elts) == 2):
                raise Unsupported("items() target")
            self._bind_target(target.elts[0], sv_val(key), it_st)
            self._bind_target(target.elts[1], sv_val(e_get[key]), it_st)
        elif mode == "keys":
            self._bind_target(target, sv_val(key), it_st)
        else:
            self._bind_target(target, sv_val(e_get[key]), it_st)
        if self.feasible(it_st):
            for o in self.exec_block(node.body, it_st):
                if o.kind in ("normal", "continue"):
                    h2 = Heap(self, o.state)
                    self.oblige(
                        f"loop {ordinal}: iterated mapping not mutated",
                        o.state,
                        z3.And(h2.arr("dhas")[dct] == e_has, h2.arr("dget")[dct] == e_get),
                        node,
                        kind="inv-preserved",
                    )
                    for j, g in enumerate(inv(o.state, None, z3.Store(seen, key, True))):
                        self.oblige(f"loop {ordinal}: invariant #{j} preserved", o.state, g, node, kind="inv-preserved")
                elif o.kind == "break":
                    outs.append(Outcome("normal", o.state))
                else:
                    outs.append(o)
        ex_st = st.fork()
        self.havoc(ex_st, [n for n in assigned if n not in tgt_names], tag + "x")
        for n in tgt_names:
            ex_st.env[n] = sv_val(self.fresh(f"{n}_{tag}x"))
        h3 = Heap(self, ex_st)
        ex_st.assume(h3.arr("dhas")[dct] == e_has, h3.arr("dget")[dct] == e_get, h3.dlen(dct) == entry_heap_get(entry_heap, "dlen")[dct])
        for g in inv(ex_st, None, e_has):
            ex_st.assume(g)
        if self.feasible(ex_st):
            outs.append(Outcome("normal", ex_st))
        return outs

    def _bind_target(self, target, v: SV, st: State):
        if isinstance(target, ast.Name):
            st.env[target.id] = v
        else:
            raise Unsupported("loop target shape")

    def stmt_Continue(self, node, st):
        return [Outcome("continue", st)]

    def stmt_Break(self, node, st):
        return [Outcome("break", st)]

    def stmt_Delete(self, node, st):
        outs = []
        if len(node.targets) != 1 or not isinstance(node.targets[0], ast.Subscript):
            raise Unsupported("del of non-subscript")
        tgt = node.targets[0]
        if self.container_kind(tgt.value) != "dict":
            raise Unsupported("del on non-dict")
        for s, k, o in self.eval(tgt.value, st):
            if k == "exc":
                outs.append(Outcome("raise", s, o))
                continue
            for s2, k2, key in self.eval(tgt.slice, s):
                if k2 == "exc":
                    outs.append(Outcome("raise", s2, key))
                    continue
                ot, kt = as_val(o), as_val(key)
                h = Heap(self, s2)
                missing = s2.fork().assume(z3.Not(h.dhas(ot, kt)))
                if self.feasible(missing):
                    outs.append(Outcome("raise", missing, self.new_obj(missing, K("KeyError"), "exc")))
                s2.assume(h.dhas(ot, kt))
                self.check_store_allowed(s2, ot, node)
                self.on_store(s2, ot)
                h.set("dlen", z3.Store(h.arr("dlen"), ot, h.dlen(ot) - 1))
                h.set("dhas", z3.Store(h.arr("dhas"), ot, z3.Store(h.arr("dhas")[ot], kt, False)))
                outs.append(Outcome("normal", s2))
        return outs

    def stmt_FunctionDef(self, node, st):
        """a nested `def`: the name is bound to an opaque closure value (its body is verified
        separately under its own contract, `outer.<locals>.name`)"""
        clo = self.fresh("closure_" + node.name)
        st.assume(T.alloc0[clo] == False, z3.Not(isinst(clo, "NoneType")))  # noqa: E712
        Heap(self, st).set("alloc", z3.Store(Heap(self, st).arr("alloc"), clo, True))
        st.env[node.name] = sv_val(clo)
        return [Outcome("normal", st)]

    def stmt_ImportFrom(self, node, st):
        # `from apischema import settings` inside functions: names resolved as module globals
        return [Outcome("normal", st)]

    # -- expressions -----------------------------------------------------------
    # eval returns a list of (state, 'val', SV) | (state, 'exc', Val term)
    def eval(self, node: ast.expr, st: State):
        m = getattr(self, "expr_" + type(node).__name__, None)
        if m is None:
            raise Unsupported(f"expression {type(node).__name__} at {self.where(node)}")
        return m(node, st)

    def eval_many(self, nodes: Sequence[ast.expr], st: State):
        """left-to-right evaluation of several expressions -> [(state, 'val', [SV...]) | (state,'exc',e)]"""
        res = [(st, "val", [])]
        for n in nodes:
            nxt = []
            for s, k, vs in res:
                if k == "exc":
                    nxt.append((s, k, vs))
                    continue
                for s2, k2, v in self.eval(n, s):
                    if k2 == "exc":
                        nxt.append((s2, "exc", v))
                    else:
                        nxt.append((s2, "val", vs + [v]))
            res = nxt
        return res

    def expr_Constant(self, node, st):
        v = node.value
        if v is None:
            return [(st, "val", sv_val(T.None_))]
        if v is True or v is False:
            return [(st, "val", sv_bool(z3.BoolVal(v)))]
        if isinstance(v, int):
            return [(st, "val", sv_int(z3.IntVal(v)))]
        if isinstance(v, str):
            return [(st, "val", sv_val(T.strc(v)))]
        if v is Ellipsis:
            return [(st, "val", sv_val(T.Ellipsis_))]
        raise Unsupported(f"constant {v!r}")

    def expr_Name(self, node, st):
        name = node.id
        if name in st.env:
            return [(st, "val", st.env[name])]
        return [(st, "val", self.global_name(name, node))]

    def global_name(self, name: str, node) -> SV:
        lname = T.classes().local(name, self.module)
        if lname in T.classes():
            return SV("class", K(lname))
        g = getattr(self.contract, "globals", {})
        if name in g:
            return g[name](self)
        rg = self.registry.global_value(self.module, name, self)
        if rg is not None:
            return rg
        if self.registry.lookup_function(self.module, name) is not None or name in BUILTIN_CALLS:
            return SV("func", name)
        # module constant that is a tuple of classes (e.g. CHECK_ONLY_METHODS)
        try:
            cst = source.module_constant(self.module, name)
        except source.SourceError:
            cst = None
        if isinstance(cst, ast.Tuple) and cst.elts and all(isinstance(e, ast.Name) for e in cst.elts):
            names = [T.classes().local(e.id, self.module) for e in cst.elts]
            # classes imported from another module keep that module's theory name
            imp = self.registry.module_imports(self.module)
            res = []
            for e, n in zip(cst.elts, names):
                src = imp.get(e.id)
                if src:
                    n = T.classes().local(e.id, src.split(":")[0])
                if n not in T.classes():
                    raise Unsupported(f"class {e.id} in constant {name} is not a named class")
                res.append(SV("class", K(n)))
            return SV("tuple", res)
        raise Unsupported(f"global name `{name}` at {self.where(node)} has no model")

    def expr_Attribute(self, node, st):
        outs = []
        # module-level dotted globals such as settings.errors.x are handled by contract globals
        txt = ast.unparse(node)
        g = getattr(self.contract, "globals", {})
        if txt in g:
            return [(st, "val", g[txt](self))]
        for s, k, o in self.eval(node.value, st):
            if k == "exc":
                outs.append((s, k, o))
                continue
            if o.kind == "class" or o.kind == "func":
                raise Unsupported(f"attribute of static {txt} at {self.where(node)}")
            ot = as_val(o)
            if node.attr == "__class__":
                outs.append((s, "val", sv_val(cls(ot))))
                continue
            if node.attr == "__dict__":
                # the instance dictionary (objects with __slots__ are outside the model: stated assumption)
                outs.append((s, "val", sv_val(T.idict(ot))))
                continue
            h = Heap(self, s)
            outs.append((s, "val", sv_val(h.attr(ot, node.attr))))
        return outs

    def eval_pure(self, node, st: State, guard):
        """evaluate `node` under the extra assumption `guard`; if it has exactly one outcome,
        raises nothing and leaves the heap untouched, return its value (facts learnt are kept
        as implications from the guard), else None"""
        sub = st.fork().assume(guard)
        n0 = len(sub.pc)
        heap0 = dict(sub.heap)
        try:
            outs = self.eval(node, sub)
        except (Unsupported, SidecarError) as e:
            if os.environ.get("PYVC_DEBUG"):
                print("eval_pure: unsupported:", ast.unparse(node)[:80], e)
            return None
        outs = [o for o in outs if self.feasible(o[0])]
        if len(outs) > 1:
            # exceptional branches that the class invariants exclude (needs the full solver)
            outs = [o for o in outs if o[1] == "val" or not self.definitely_infeasible(o[0])]
        if len(outs) != 1 or outs[0][1] != "val":
            if os.environ.get("PYVC_DEBUG"):
                print("eval_pure: not pure:", ast.unparse(node)[:80], [(k, str(v)[:60]) for _, k, v in outs])
            return None
        so, _, v = outs[0]
        for hn, arr in so.heap.items():
            before = heap0[hn] if hn in heap0 else T.heap0(hn)  # a heap array first read here
            if not arr.eq(before):
                return None
        for hn, arr in so.heap.items():
            st.heap.setdefault(hn, arr)
        for f in so.pc[n0:]:
            st.assume(z3.Implies(guard, f))
        return v

    def expr_BoolOp(self, node, st):
        is_and = isinstance(node.op, ast.And)

        def rec(values, s):
            first, rest = values[0], values[1:]
            res = []
            for s1, k, v in self.eval(first, s):
                if k == "exc":
                    res.append((s1, k, v))
                    continue
                if not rest:
                    res.append((s1, "val", v))
                    continue
                c = z3.simplify(self.truthy(s1, v))
                go_cond = c if is_and else z3.Not(c)
                # side-effect free tail: one value, no fork (a and b  ==  b if a else a)
                tail = ast.BoolOp(op=node.op, values=list(rest)) if len(rest) > 1 else rest[0]
                ast.copy_location(tail, node)
                pv = self.eval_pure(tail, s1, go_cond)
                if pv is not None:
                    if v.kind == "bool" and pv.kind == "bool":
                        res.append((s1, "val", sv_bool(z3.And(v.t, pv.t) if is_and else z3.Or(v.t, pv.t))))
                    else:
                        res.append((s1, "val", sv_val(z3.If(go_cond, self.val_of(pv), self.val_of(v)))))
                    continue
                go = s1.fork().assume(go_cond)
                stop = s1.fork().assume(z3.Not(go_cond))
                if self.feasible(stop):
                    res.append((stop, "val", v))
                if self.feasible(go):
                    res.extend(rec(rest, go))
            return res

        return rec(node.values, st)

    def expr_UnaryOp(self, node, st):
        outs = []
        for s, k, v in self.eval(node.operand, st):
            if k == "exc":
                outs.append((s, k, v))
            elif isinstance(node.op, ast.Not):
                outs.append((s, "val", sv_bool(z3.Not(self.truthy(s, v)))))
            elif isinstance(node.op, ast.USub):
                outs.append((s, "val", sv_int(-as_int(v))))
            else:
                raise Unsupported("unary op")
        return outs

    def expr_IfExp(self, node, st):
        outs = []
        for s, k, v in self.eval(node.test, st):
            if k == "exc":
                outs.append((s, k, v))
                continue
            c = z3.simplify(self.truthy(s, v))
            pt = self.eval_pure(node.body, s, c)
            pf = self.eval_pure(node.orelse, s, z3.Not(c)) if pt is not None else None
            if pt is not None and pf is not None:
                if pt.kind == "bool" and pf.kind == "bool":
                    outs.append((s, "val", sv_bool(z3.If(c, pt.t, pf.t))))
                else:
                    outs.append((s, "val", sv_val(z3.If(c, self.val_of(pt), self.val_of(pf)))))
                continue
            st_t, st_f = s.fork().assume(c), s.fork().assume(z3.Not(c))
            if self.feasible(st_t):
                outs.extend(self.eval(node.body, st_t))
            if self.feasible(st_f):
                outs.extend(self.eval(node.orelse, st_f))
        return outs

    def expr_Compare(self, node, st):
        if len(node.ops) != 1:
            raise Unsupported("chained comparison")
        op = node.ops[0]
        outs = []
        for s, k, vs in self.eval_many([node.left, node.comparators[0]], st):
            if k == "exc":
                outs.append((s, k, vs))
                continue
            a, b = vs
            if isinstance(op, (ast.Is, ast.IsNot)):
                if a.kind == "class" or b.kind == "class":
                    at = a.t if a.kind == "class" else as_val(a)
                    bt = b.t if b.kind == "class" else as_val(b)
                    r = at == bt
                else:
                    r = as_val(a) == as_val(b)
                outs.append((s, "val", sv_bool(z3.Not(r) if isinstance(op, ast.IsNot) else r)))
            elif isinstance(op, (ast.Eq, ast.NotEq)):
                if a.kind == "int" or b.kind == "int":
                    r = as_int(a) == as_int(b)
                else:
                    # == on values: identity on None / str / int, reflexive, else uninterpreted
                    if a.kind == "class" or b.kind == "class" or a.kind == "bool" or b.kind == "bool":
                        r = self.val_of(a) == self.val_of(b)
                    else:
                        r = T.py_eq(self.val_of(a), self.val_of(b))
                outs.append((s, "val", sv_bool(z3.Not(r) if isinstance(op, ast.NotEq) else r)))
            elif isinstance(op, (ast.Lt, ast.LtE, ast.Gt, ast.GtE)):
                if not (a.kind == "int" and b.kind == "int") and not getattr(self.contract, "int_compare", False):
                    raise Unsupported(f"ordering comparison of non-int values at {self.where(node)}")
                x, y = as_int(a), as_int(b)
                r = {ast.Lt: x < y, ast.LtE: x <= y, ast.Gt: x > y, ast.GtE: x >= y}[type(op)]
                outs.append((s, "val", sv_bool(r)))
            elif isinstance(op, (ast.In, ast.NotIn)):
                outs.extend(self.membership(s, a, b, node, isinstance(op, ast.NotIn)))
            else:
                raise Unsupported("comparison op")
        return outs

    def val_of(self, v: SV):
        if v.kind == "class":
            return v.t
        return as_val(v)

    def membership(self, st: State, a: SV, b: SV, node, negate: bool):
        outs = []
        if b.kind == "tuple":
            r = z3.Or(*[self.val_of(a) == self.val_of(x) for x in b.t]) if b.t else z3.BoolVal(False)
            return [(st, "val", sv_bool(z3.Not(r) if negate else r))]
        cmp0 = node.comparators[0]
        if isinstance(cmp0, (ast.Tuple, ast.List)) and not any(isinstance(e, ast.Starred) for e in cmp0.elts):
            # x in (a, b, ...): `is` or `==` against each element of the literal
            bt, at = as_val(b), self.val_of(a)
            hh = Heap(self, st)
            r = z3.Or(*[T.py_eq(at, hh.lget(bt, i)) for i in range(len(cmp0.elts))]) if cmp0.elts else z3.BoolVal(False)
            return [(st, "val", sv_bool(z3.Not(r) if negate else r))]
        kind = self.container_kind(cmp0)
        bt, at = as_val(b), self.val_of(a)
        h = Heap(self, st)
        if kind in ("dict", "set"):
            okc = z3.Or(isinst(bt, "dict"), isinst(bt, "set"), isinst(bt, "frozenset"))
            bad = st.fork().assume(z3.Not(okc))
            if self.feasible(bad):
                outs.append((bad, "exc", self.new_obj(bad, K("TypeError"), "exc")))
            st.assume(okc)
            unh = st.fork().assume(z3.Not(T.hashable(at)))
            if self.feasible(unh):
                outs.append((unh, "exc", self.new_obj(unh, K("TypeError"), "exc")))
            st.assume(T.hashable(at))
            r = Heap(self, st).dhas(bt, at)
            outs.append((st, "val", sv_bool(z3.Not(r) if negate else r)))
            return outs
        if kind in ("tuple", "list", "seq"):
            okc = z3.Or(isinst(bt, "tuple"), isinst(bt, "list"))
            bad = st.fork().assume(z3.Not(okc))
            if self.feasible(bad):
                outs.append((bad, "exc", self.new_obj(bad, K("TypeError"), "exc")))
            st.assume(okc)
            j = z3.Int("jm")
            hh = Heap(self, st)
            r = z3.Exists([j], z3.And(j >= 0, j < hh.llen(bt), hh.lget(bt, j) == at))
            outs.append((st, "val", sv_bool(z3.Not(r) if negate else r)))
            return outs
        raise Unsupported(f"membership in kind {kind}")

    def expr_Subscript(self, node, st):
        outs = []
        if isinstance(node.slice, ast.Slice):
            raise Unsupported("slice")
        kind = self.container_kind(node.value)
        for s, k, vs in self.eval_many([node.value, node.slice], st):
            if k == "exc":
                outs.append((s, k, vs))
                continue
            o, key = vs
            ot = as_val(o)
            h = Heap(self, s)
            if kind in ("list", "tuple", "seq"):
                isseq = z3.Or(isinst(ot, "list"), isinst(ot, "tuple"))
                bad = s.fork().assume(z3.Not(isseq))
                if self.feasible(bad):
                    outs.append((bad, "exc", self.new_obj(bad, K("TypeError"), "exc")))
                s.assume(isseq)
                i = as_int(key)
                n = h.llen(ot)
                inb = z3.And(i >= -n, i < n)
                oob = s.fork().assume(z3.Not(inb))
                if self.feasible(oob):
                    outs.append((oob, "exc", self.new_obj(oob, K("IndexError"), "exc")))
                s.assume(inb)
                outs.append((s, "val", sv_val(Heap(self, s).lget(ot, z3.If(i < 0, i + n, i)))))
            elif kind == "dict":
                isd = isinst(ot, "dict")
                bad = s.fork().assume(z3.Not(isd))
                if self.feasible(bad):
                    outs.append((bad, "exc", self.new_obj(bad, K("TypeError"), "exc")))
                s.assume(isd)
                kt = self.val_of(key)
                unh = s.fork().assume(z3.Not(T.hashable(kt)))
                if self.feasible(unh):
                    outs.append((unh, "exc", self.new_obj(unh, K("TypeError"), "exc")))
                s.assume(T.hashable(kt))
                miss = s.fork().assume(z3.Not(Heap(self, s).dhas(ot, kt)))
                if self.feasible(miss):
                    outs.append((miss, "exc", self.new_obj(miss, K("KeyError"), "exc")))
                s.assume(Heap(self, s).dhas(ot, kt))
                outs.append((s, "val", sv_val(Heap(self, s).dget(ot, kt))))
            else:
                raise Unsupported(f"subscript of kind {kind}")
        return outs

    def expr_Tuple(self, node, st):
        if any(isinstance(e, ast.Starred) for e in node.elts):
            raise Unsupported("starred in tuple")
        outs = []
        for s, k, vs in self.eval_many(node.elts, st):
            if k == "exc":
                outs.append((s, k, vs))
            elif all(v.kind == "class" for v in vs) and vs:
                outs.append((s, "val", SV("tuple", vs)))
            else:
                arr = T.EMPTY_ITEMS
                for j, v in enumerate(vs):
                    arr = z3.Store(arr, j, self.val_of(v))
                o = self.new_list(s, z3.IntVal(len(vs)), arr, K("tuple"), "tuple")
                outs.append((s, "val", sv_val(o)))
        return outs

    def expr_List(self, node, st):
        outs = []
        elts = node.elts
        for s, k, vs in self.eval_many([e.value if isinstance(e, ast.Starred) else e for e in elts], st):
            if k == "exc":
                outs.append((s, k, vs))
                continue
            if any(isinstance(e, ast.Starred) for e in elts):
                outs.append((s, "val", sv_val(self.concat_lists(s, elts, vs))))
                continue
            arr = T.EMPTY_ITEMS
            for j, v in enumerate(vs):
                arr = z3.Store(arr, j, self.val_of(v))
            o = self.new_list(s, z3.IntVal(len(vs)), arr, hint="list")
            outs.append((s, "val", sv_val(o)))
        return outs

    def expr_Set(self, node, st):
        """{a, *xs[:n], *d}: a fresh set defined by membership.  A starred operand must be a list /
        tuple (optionally sliced `[:upper]`), or a dict / set (its keys / members); kinds from the sidecar."""
        plain = [e for e in node.elts if not isinstance(e, ast.Starred)]
        starred = [e.value for e in node.elts if isinstance(e, ast.Starred)]
        bases, uppers = [], []
        for e in starred:
            if isinstance(e, ast.Subscript) and isinstance(e.slice, ast.Slice):
                if e.slice.lower is not None or e.slice.step is not None or e.slice.upper is None:
                    raise Unsupported(f"slice form in set display at {self.where(node)}")
                bases.append(e.value)
                uppers.append(e.slice.upper)
            else:
                bases.append(e)
                uppers.append(None)
        ups = [u for u in uppers if u is not None]
        outs = []
        for s, k, vs in self.eval_many(plain + bases + ups, st):
            if k == "exc":
                outs.append((s, k, vs))
                continue
            h = Heap(self, s)
            pv = [self.val_of(v) for v in vs[: len(plain)]]
            bv = [as_val(v) for v in vs[len(plain) : len(plain) + len(bases)]]
            uv = iter(vs[len(plain) + len(bases) :])
            x = z3.Const("sx", Val)
            j = z3.Int("sj")
            members = [x == p for p in pv]
            hashable_facts = [T.hashable(p) for p in pv]
            for b_node, b, up in zip(bases, bv, uppers):
                kind = self.container_kind(b_node)
                if kind in ("list", "tuple", "seq"):
                    n = h.llen(b)
                    if up is not None:
                        u = as_int(next(uv))
                        u = z3.If(u < 0, z3.If(n + u < 0, 0, n + u), u)
                        n = z3.If(u < n, u, n)
                    members.append(z3.Exists([j], z3.And(j >= 0, j < n, x == h.lget(b, j))))
                    jj = z3.Int("shj")
                    hashable_facts.append(T.forall([jj], z3.Implies(z3.And(jj >= 0, jj < n), T.hashable(h.lget(b, jj))), patterns=[h.lget(b, jj)]))
                elif kind in ("dict", "set"):
                    members.append(h.arr("dhas")[b][x])
                else:
                    raise Unsupported(f"starred operand of kind {kind} in set display at {self.where(node)}")
            unh = s.fork().assume(z3.Not(z3.And(*hashable_facts))) if hashable_facts else None
            if unh is not None and self.feasible(unh) and not self.definitely_infeasible(unh):
                outs.append((unh, "exc", self.new_obj(unh, K("TypeError"), "exc")))
            if hashable_facts:
                s.assume(*hashable_facts)
            has = self.fresh("sdisp", T.ArrVB)
            s.assume(T.forall([x], has[x] == z3.Or(*members) if members else z3.Not(has[x]), patterns=[has[x]]))
            ln = self.fresh("sdl", T.I)
            s.assume(ln >= 0)
            o = self.new_dict(s, has, T.NOGET, ln, K("set"), "set")
            outs.append((s, "val", sv_val(o)))
        return outs

    def concat_lists(self, st: State, elts, vs):
        """[*a, x, *b]: fresh list whose content is the concatenation (sequence operands must
        be lists / tuples: asserted by the caller's kinds)"""
        h = Heap(self, st)
        total = z3.IntVal(0)
        parts = []
        for e, v in zip(elts, vs):
            if isinstance(e, ast.Starred):
                t = as_val(v)
                parts.append(("seq", t, total))
                total = total + h.llen(t)
            else:
                parts.append(("one", self.val_of(v), total))
                total = total + 1
        arr = self.fresh("cat", T.ArrIV)
        j = z3.Int("j")
        for kind, t, off in parts:
            if kind == "seq":
                st.assume(T.forall([j], z3.Implies(z3.And(j >= 0, j < h.llen(t)), arr[off + j] == h.lget(t, j)), patterns=[h.lget(t, j)]))
                st.assume(T.forall([j], z3.Implies(z3.And(j >= off, j < off + h.llen(t)), arr[j] == h.lget(t, j - off)), patterns=[arr[j]]))
            else:
                st.assume(arr[off] == t)
        return self.new_list(st, z3.simplify(total), arr, hint="list")

    def expr_Dict(self, node, st):
        if any(k is None for k in node.keys):
            return self._dict_unpack(node, st)
        outs = []
        flat = [x for kv in zip(node.keys, node.values) for x in kv]
        for s, k, vs in self.eval_many(flat, st):
            if k == "exc":
                outs.append((s, k, vs))
                continue
            has = z3.K(Val, False)
            get = T.NOGET
            o = self.new_dict(s, has, get, z3.IntVal(0), hint="dict")
            for j in range(0, len(vs), 2):
                kt = self.val_of(vs[j])
                unh = s.fork().assume(z3.Not(T.hashable(kt)))
                if self.feasible(unh):
                    outs.append((unh, "exc", self.new_obj(unh, K("TypeError"), "exc")))
                s.assume(T.hashable(kt))
                self.dict_store(s, o, kt, self.val_of(vs[j + 1]))
            outs.append((s, "val", sv_val(o)))
        return outs

    def _keys_base(self, node):
        if isinstance(node, ast.Call) and isinstance(node.func, ast.Attribute) and node.func.attr == "keys" and not node.args:
            return node.func.value
        return None

    def _dict_unpack(self, node, st):
        """{**a, **b, k: v}: later entries win; every unpacked operand must be a dict"""
        outs = []
        for s, k, vs in self.eval_many([x for kv in zip(node.keys, node.values) for x in kv if x is not None], st):
            if k == "exc":
                outs.append((s, k, vs))
                continue
            it = iter(vs)
            has, get = z3.K(Val, False), T.NOGET
            n_known = None
            h = Heap(self, s)
            for key_node in node.keys:
                if key_node is None:
                    src = as_val(next(it))
                    bad = s.fork().assume(z3.Not(isinst(src, "dict")))
                    if self.feasible(bad):
                        outs.append((bad, "exc", self.new_obj(bad, K("TypeError"), "exc")))
                    s.assume(isinst(src, "dict"))
                    nh, ng = self.fresh("mh", T.ArrVB), self.fresh("mg", T.ArrVV)
                    kk = z3.Const("kk", Val)
                    sh, sg = h.arr("dhas")[src], h.arr("dget")[src]
                    s.assume(T.forall([kk], nh[kk] == z3.Or(has[kk], sh[kk]), patterns=[nh[kk]]))
                    s.assume(T.forall([kk], ng[kk] == z3.If(sh[kk], sg[kk], get[kk]), patterns=[ng[kk]]))
                    has, get = nh, ng
                else:
                    kt, vt = self.val_of(next(it)), self.val_of(next(it))
                    has, get = z3.Store(has, kt, True), z3.Store(get, kt, vt)
            n = self.fresh("dl", T.I)
            kk = z3.Const("kk", Val)
            s.assume(n >= 0, (n == 0) == z3.Not(z3.Exists([kk], has[kk])))
            o = self.new_dict(s, has, get, n, hint="dict")
            outs.append((s, "val", sv_val(o)))
        return outs

    def expr_BinOp(self, node, st):
        outs = []
        kinds_ = getattr(self.contract, "kinds", {})
        set_operands = ast.unparse(node.left) in kinds_ and ast.unparse(node.right) in kinds_ and kinds_[ast.unparse(node.left)] in ("set", "dict") and kinds_[ast.unparse(node.right)] in ("set", "dict")
        if isinstance(node.op, (ast.Sub, ast.BitAnd, ast.BitOr)) and (self._keys_base(node.left) is not None or self._keys_base(node.right) is not None or set_operands):
            # d.keys() - s, s & d.keys(), s | d.keys(): a fresh set defined by membership
            lnode = self._keys_base(node.left) or node.left
            rnode = self._keys_base(node.right) or node.right
            for s, k, vs in self.eval_many([lnode, rnode], st):
                if k == "exc":
                    outs.append((s, k, vs))
                    continue
                l, r = as_val(vs[0]), as_val(vs[1])
                h = Heap(self, s)
                for t, nd in ((l, lnode), (r, rnode)):
                    okc = z3.Or(isinst(t, "dict"), isinst(t, "set"), isinst(t, "frozenset"))
                    bad = s.fork().assume(z3.Not(okc))
                    if self.feasible(bad):
                        outs.append((bad, "exc", self.new_obj(bad, K("TypeError"), "exc")))
                    s.assume(okc)
                new_has = self.fresh("setop", T.ArrVB)
                kk = z3.Const("kk", Val)
                lh, rh = h.arr("dhas")[l], h.arr("dhas")[r]
                body = {ast.Sub: z3.And(lh[kk], z3.Not(rh[kk])), ast.BitAnd: z3.And(lh[kk], rh[kk]), ast.BitOr: z3.Or(lh[kk], rh[kk])}[type(node.op)]
                s.assume(T.forall([kk], new_has[kk] == body, patterns=[new_has[kk]]))
                n = self.fresh("setlen", T.I)
                s.assume(n >= 0, (n == 0) == z3.Not(z3.Exists([kk], new_has[kk])))
                o = self.new_dict(s, new_has, T.NOGET, n, K("set"), "set")
                outs.append((s, "val", sv_val(o)))
            return outs
        if isinstance(node.op, ast.Mult) and isinstance(node.left, ast.List) and len(node.left.elts) == 1:
            # [x] * n : fresh list of max(n, 0) items all equal to x
            for s, k, vs in self.eval_many([node.left.elts[0], node.right], st):
                if k == "exc":
                    outs.append((s, k, vs))
                    continue
                x, n = self.val_of(vs[0]), as_int(vs[1])
                arr = self.fresh("rep", T.ArrIV)
                j = z3.Int("j")
                s.assume(T.forall([j], arr[j] == x, patterns=[arr[j]]))
                o = self.new_list(s, z3.If(n >= 0, n, 0), arr, hint="list")
                outs.append((s, "val", sv_val(o)))
            return outs
        for s, k, vs in self.eval_many([node.left, node.right], st):
            if k == "exc":
                outs.append((s, k, vs))
                continue
            a, b = vs
            if isinstance(node.op, (ast.Add, ast.Sub)) and (a.kind == "int" or b.kind == "int") and a.kind != "val" and b.kind != "val":
                x, y = as_int(a), as_int(b)
                outs.append((s, "val", sv_int(x + y if isinstance(node.op, ast.Add) else x - y)))
            elif isinstance(node.op, (ast.Add, ast.Sub)) and getattr(self.contract, "int_vars", None) and self._is_int_expr(node.left) and self._is_int_expr(node.right):
                x, y = as_int(a), as_int(b)
                outs.append((s, "val", sv_int(x + y if isinstance(node.op, ast.Add) else x - y)))
            elif isinstance(node.op, ast.Mult) and isinstance(node.left, ast.List) and len(node.left.elts) == 1:
                # [x] * n
                n = as_int(b)
                raise Unsupported("list repetition must be written [c] * n and is handled in expr_BinOp_listmul")
            elif isinstance(node.op, ast.Add) and a.kind == "val" and b.kind == "val" and getattr(self.contract, "str_concat", False):
                outs.append((s, "val", sv_val(STRCAT(a.t, b.t))))
            else:
                raise Unsupported(f"binary operator {type(node.op).__name__} at {self.where(node)}")
        return outs

    def _is_int_expr(self, node) -> bool:
        iv = getattr(self.contract, "int_vars", [])
        return isinstance(node, ast.Constant) and isinstance(node.value, int) or (isinstance(node, ast.Name) and node.id in iv)

    def expr_JoinedStr(self, node, st):
        args = [v.value for v in node.values if isinstance(v, ast.FormattedValue)]
        shape = "".join("{}" if isinstance(v, ast.FormattedValue) else str(v.value) for v in node.values)
        outs = []
        for s, k, vs in self.eval_many(args, st):
            if k == "exc":
                outs.append((s, k, vs))
                continue
            f = z3.Function(f"fstr_{abs(hash(shape)) % 10**8}_{len(vs)}", *([Val] * len(vs)), Val)
            r = f(*[self.val_of(v) for v in vs])
            s.assume(cls(r) == K("str"), T.alloc0[r])
            outs.append((s, "val", sv_val(r)))
        return outs

    def expr_Lambda(self, node, st):
        raise Unsupported("lambda")

    def expr_Call(self, node, st):
        from .calls import eval_call

        return eval_call(self, node, st)

    def expr_DictComp(self, node, st):
        from .calls import eval_dictcomp

        return eval_dictcomp(self, node, st)

    def expr_ListComp(self, node, st):
        from .calls import eval_listcomp

        return eval_listcomp(self, node, st)

    def expr_SetComp(self, node, st):
        from .calls import eval_setcomp

        return eval_setcomp(self, node, st)

    def expr_GeneratorExp(self, node, st):
        """a generator expression bound to a name / passed on: evaluated eagerly as the list of its
        elements.  Sound only when neither the filter nor the element expression can raise or has an
        effect (checked: no exceptional outcome), since a generator runs them when it is consumed"""
        from .calls import eval_listcomp

        comp = ast.ListComp(elt=node.elt, generators=node.generators)
        ast.copy_location(comp, node)
        outs = eval_listcomp(self, comp, st)
        if any(k == "exc" for _, k, _ in outs):
            raise Unsupported(f"generator expression whose elements may raise at {self.where(node)}")
        return outs


_QCACHE: Dict[int, bool] = {}


def _has_quantifier(e) -> bool:
    key = e.get_id()
    if key in _QCACHE:
        return _QCACHE[key]
    seen = set()
    stack = [e]
    res = False
    while stack:
        t = stack.pop()
        i = t.get_id()
        if i in seen:
            continue
        seen.add(i)
        if z3.is_quantifier(t):
            res = True
            break
        if z3.is_app(t):
            stack.extend(t.children())
    _QCACHE[key] = res
    return res


STRCAT = z3.Function("strcat", Val, Val, Val)


def entry_heap_get(entry_heap: Dict[str, Any], name: str):
    return entry_heap.get(name, T.heap0(name))


BUILTIN_CALLS = {"isinstance", "len", "type", "list", "tuple", "dict", "set", "frozenset", "sorted", "str", "float", "int", "bool", "issubclass", "callable", "getattr", "setattr", "hasattr", "map", "zip", "all", "any", "next", "iter", "repr", "super", "object"}


# ---------------------------------------------------------------------------
# contexts handed to sidecar contracts


class SpecCtx:
    """what `requires` / `modifies` see: parameters and the entry heap"""

    def __init__(self, ex: Executor, st: State, params: Dict[str, Any]):
        self.ex = ex
        self.st = st
        self.p = params
        self.T = T

    def __getattr__(self, name):
        p = object.__getattribute__(self, "p")
        if name in p:
            return p[name]
        raise AttributeError(name)

    # entry-heap observers
    def attr0(self, o, name):
        self.ex.touch_heap(T.attr_heap(name))
        return T.heap0(T.attr_heap(name))[o]

    def llen0(self, o):
        return T.heap0("llen")[o]

    def lget0(self, o, i):
        return T.heap0("lget")[o][i]

    def dhas0(self, o, k):
        return T.heap0("dhas")[o][k]

    def dget0(self, o, k):
        return T.heap0("dget")[o][k]

    def dlen0(self, o):
        return T.heap0("dlen")[o]

    # current-heap observers (same as entry in `requires`)
    def attr(self, o, name):
        return Heap(self.ex, self.st).attr(o, name)

    def llen(self, o):
        return Heap(self.ex, self.st).llen(o)

    def lget(self, o, i):
        return Heap(self.ex, self.st).lget(o, i)

    def dhas(self, o, k):
        return Heap(self.ex, self.st).dhas(o, k)

    def dget(self, o, k):
        return Heap(self.ex, self.st).dget(o, k)

    def dlen(self, o):
        return Heap(self.ex, self.st).dlen(o)

    def alloc(self, o):
        return Heap(self.ex, self.st).alloc(o)

    def alloc0(self, o):
        """allocated when the function is entered (at a call site: when the call is made)"""
        return T.alloc0[o]

    def arr(self, name, o):
        """whole inner array of object o in the current heap (e.g. arr('dhas', d))"""
        return Heap(self.ex, self.st).arr(name)[o]

    def arr0(self, name, o):
        return T.heap0(name)[o]

    def fresh(self, o):
        """allocated by this activation"""
        return z3.And(z3.Not(T.alloc0[o]), self.alloc(o))

    def local(self, name: str):
        env = self.st.env
        if name not in env:
            raise SidecarError(f"sidecar refers to local `{name}` which does not exist in {self.ex.contract.target}")
        v = env[name]
        return v.t if v.kind in ("int", "bool") else as_val(v)

    def local_val(self, name: str):
        env = self.st.env
        if name not in env:
            raise SidecarError(f"sidecar refers to local `{name}` which does not exist in {self.ex.contract.target}")
        return as_val(env[name])

    def local_int(self, name: str):
        return as_int(self.st.env[name]) if name in self.st.env else self._missing(name)

    def _missing(self, name):
        raise SidecarError(f"sidecar refers to local `{name}` which does not exist in {self.ex.contract.target}")

    def truthy(self, v):
        return self.ex.truthy(self.st, sv_val(v))

    def truthy0(self, v):
        """truthiness in the entry heap"""
        return self.ex.truthy(State({}, {}, []), sv_val(v))


class LoopCtx(SpecCtx):
    def __init__(self, ex, st, params, index, seen, entry_heap):
        super().__init__(ex, st, params)
        self.index = index
        self.seen = seen
        self.entry_heap = entry_heap


class PostCtx(SpecCtx):
    def __init__(self, ex, st, params, outcome: Outcome):
        super().__init__(ex, st, params)
        self.returned = z3.BoolVal(outcome.kind == "return")
        self.raised = z3.BoolVal(outcome.kind == "raise")
        self.is_return = outcome.kind == "return"
        self.is_raise = outcome.kind == "raise"
        self.result = self.ex.val_of(outcome.value) if outcome.kind == "return" else T.None_
        self.exc = outcome.value if outcome.kind == "raise" else T.None_
