"""pyvc: a small deductive verifier for a subset of Python.

Real source text (read from the repository working tree at every run) ->
symbolic execution against sidecar contracts -> verification conditions ->
z3 / cvc5.  See /verif/DESIGN.md section 2.
"""
