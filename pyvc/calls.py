"""Call models: builtins, container methods, abstract children, callee contracts, inlining."""
from __future__ import annotations

import ast
import os
from typing import Any, List, Sequence

import z3

from . import source
from . import theory as T
from .symexec import (
    SV,
    Executor,
    Heap,
    Outcome,
    PostCtx,
    SidecarError,
    SpecCtx,
    State,
    Unsupported,
    as_int,
    as_val,
    sv_bool,
    sv_int,
    sv_val,
)
from .theory import K, Val, cls, isinst, sub


def _exc(ex: Executor, st: State, name: str):
    return (st, "exc", ex.new_obj(st, K(name), "exc"))


def eval_call(ex: Executor, node: ast.Call, st: State):
    f = node.func
    ov0 = getattr(ex.contract, "call_overrides", {})
    txt0 = ast.unparse(f)
    if txt0 in ov0:
        return ov0[txt0](ex, node, st)
    if node.keywords and any(k.arg is None for k in node.keywords):
        raise Unsupported(f"**kwargs call at {ex.where(node)}")
    # ---- method calls -------------------------------------------------------
    if isinstance(f, ast.Attribute):
        # super().method(args)
        if isinstance(f.value, ast.Call) and isinstance(f.value.func, ast.Name) and f.value.func.id == "super":
            return call_super(ex, node, st)
        txt = ast.unparse(f)
        ov = getattr(ex.contract, "call_overrides", {})
        if txt in ov:
            return ov[txt](ex, node, st)
        if txt in getattr(ex.contract, "coercers", ()):
            return call_coercer(ex, node, st)
        return call_method(ex, node, st)
    if isinstance(f, ast.Name):
        name = f.id
        ov = getattr(ex.contract, "call_overrides", {})
        if name in ov:
            return ov[name](ex, node, st)
        if name in getattr(ex.contract, "coercers", ()):
            return call_coercer(ex, node, st)
        if name in st.env:
            return call_value(ex, node, st, st.env[name])
        if name in BUILTINS:
            return BUILTINS[name](ex, node, st)
        if T.classes().local(name, ex.module) in T.classes():
            return call_class(ex, node, st, T.classes().local(name, ex.module))
        target = ex.registry.lookup_function(ex.module, name)
        if target is not None:
            return call_contract(ex, node, st, target)
        raise Unsupported(f"call of `{name}` at {ex.where(node)} has no model")
    raise Unsupported(f"call of expression {ast.unparse(f)} at {ex.where(node)}")


def _args(ex, node, st):
    if any(isinstance(a, ast.Starred) for a in node.args):
        raise Unsupported(f"starred argument at {ex.where(node)}")
    return ex.eval_many(list(node.args) + [k.value for k in node.keywords], st)


# ---------------------------------------------------------------------------
# builtins


def b_isinstance(ex, node, st):
    outs = []
    for s, k, vs in ex.eval_many(node.args, st):
        if k == "exc":
            outs.append((s, k, vs))
            continue
        v, c = vs
        vt = ex.val_of(v)
        if c.kind == "class":
            r = sub(cls(vt), c.t)
        elif c.kind == "tuple":
            r = z3.Or(*[sub(cls(vt), x.t) for x in c.t])
        elif c.kind == "val":
            r = T.inst_rt(vt, c.t)  # isinstance(x, self.expected): a run-time class (or tuple of classes)
        else:
            raise Unsupported("isinstance class argument")
        outs.append((s, "val", sv_bool(r)))
    return outs


def b_len(ex, node, st):
    outs = []
    for s, k, vs in ex.eval_many(node.args, st):
        if k == "exc":
            outs.append((s, k, vs))
            continue
        t = as_val(vs[0])
        h = Heap(ex, s)
        c = cls(t)
        is_seq = z3.Or(sub(c, K("list")), sub(c, K("tuple")))
        is_map = z3.Or(sub(c, K("dict")), sub(c, K("set")), sub(c, K("frozenset")))
        is_str = sub(c, K("str"))
        sized = z3.Or(is_seq, is_map, is_str)
        bad = s.fork().assume(z3.Not(sized))
        if ex.feasible(bad):
            # unknown classes may define __len__: outside the model -> treated as TypeError only for
            # the builtin unsized classes; other classes are left unconstrained via `len_other`
            bad2 = bad.fork().assume(z3.Or(t == T.None_, sub(c, K("int")), sub(c, K("float"))))
            if ex.feasible(bad2):
                outs.append(_exc(ex, bad2, "TypeError"))
            oth = bad.fork().assume(z3.Not(z3.Or(t == T.None_, sub(c, K("int")), sub(c, K("float")))))
            if ex.feasible(oth):
                outs.append((oth, "val", sv_int(LEN_OTHER(t))))
                oth.assume(LEN_OTHER(t) >= 0)
        s.assume(sized)
        outs.append((s, "val", sv_int(z3.If(is_seq, h.llen(t), z3.If(is_map, h.dlen(t), T.slen(t))))))
    return outs


LEN_OTHER = z3.Function("len_other", Val, T.I)


def b_type(ex, node, st):
    if len(node.args) != 1:
        raise Unsupported("type() with 3 args")
    outs = []
    for s, k, vs in ex.eval_many(node.args, st):
        outs.append((s, k, vs) if k == "exc" else (s, "val", sv_val(cls(ex.val_of(vs[0])))))
    return outs


def b_list(ex, node, st):
    """list(x): fresh copy of a sequence's items"""
    if not node.args:
        o = ex.new_list(st, z3.IntVal(0), T.EMPTY_ITEMS)
        return [(st, "val", sv_val(o))]
    return _copy_seq(ex, node, st, "list")


def b_tuple(ex, node, st):
    if not node.args:
        o = ex.new_list(st, z3.IntVal(0), T.EMPTY_ITEMS, K("tuple"), "tuple")
        return [(st, "val", sv_val(o))]
    return _copy_seq(ex, node, st, "tuple")


def _copy_seq(ex, node, st, klass):
    outs = []
    for s, k, vs in ex.eval_many(node.args, st):
        if k == "exc":
            outs.append((s, k, vs))
            continue
        t = as_val(vs[0])
        kind = ex.container_kind(node.args[0])
        h = Heap(ex, s)
        if kind in ("list", "tuple", "seq"):
            isseq = z3.Or(isinst(t, "list"), isinst(t, "tuple"))
            bad = s.fork().assume(z3.Not(isseq))
            if ex.feasible(bad):
                outs.append(_exc(ex, bad, "TypeError"))
            s.assume(isseq)
            o = ex.new_list(s, h.llen(t), h.arr("lget")[t], K(klass), klass)
            outs.append((s, "val", sv_val(o)))
        else:
            raise Unsupported(f"{klass}() of kind {kind}")
    return outs


def b_dict(ex, node, st):
    if not node.args and not node.keywords:
        o = ex.new_dict(st, z3.K(Val, False), T.NOGET, z3.IntVal(0))
        return [(st, "val", sv_val(o))]
    if len(node.args) == 1 and not node.keywords and ex.container_kind(node.args[0]) == "dict":
        outs = []
        for s, k, vs in ex.eval_many(node.args, st):
            if k == "exc":
                outs.append((s, k, vs))
                continue
            t = as_val(vs[0])
            isd = isinst(t, "dict")
            bad = s.fork().assume(z3.Not(isd))
            if ex.feasible(bad):
                outs.append(_exc(ex, bad, "TypeError"))
            s.assume(isd)
            h = Heap(ex, s)
            o = ex.new_dict(s, h.arr("dhas")[t], h.arr("dget")[t], h.dlen(t))
            outs.append((s, "val", sv_val(o)))
        return outs
    raise Unsupported("dict(...) form")


def b_set(ex, node, st):
    if len(node.args) == 1 and _as_setcomp(ex, node.args[0]) is not None:
        return eval_setcomp(ex, _as_setcomp(ex, node.args[0]), st)
    if not node.args:
        o = ex.new_dict(st, z3.K(Val, False), T.NOGET, z3.IntVal(0), K("set"), "set")
        return [(st, "val", sv_val(o))]
    raise Unsupported("set(x)")


def b_callable(ex, node, st):
    outs = []
    for s, k, vs in ex.eval_many(node.args, st):
        outs.append((s, k, vs) if k == "exc" else (s, "val", sv_bool(CALLABLE(ex.val_of(vs[0])))))
    return outs


CALLABLE = z3.Function("callable", Val, T.B)


def b_str(ex, node, st):
    outs = []
    for s, k, vs in ex.eval_many(node.args, st):
        if k == "exc":
            outs.append((s, k, vs))
            continue
        x = ex.val_of(vs[0])
        # CPython >= 3.11: str(int) raises ValueError past the integer string conversion length limit
        big = s.fork().assume(isinst(x, "int"), z3.Not(isinst(x, "bool")), STR_TOO_LONG(x))
        if ex.feasible(big):
            outs.append(_exc(ex, big, "ValueError"))
        s.assume(z3.Not(z3.And(isinst(x, "int"), z3.Not(isinst(x, "bool")), STR_TOO_LONG(x))))
        r = STR_OF(x)
        s.assume(cls(r) == K("str"), T.alloc0[r])
        outs.append((s, "val", sv_val(r)))
    return outs


STR_OF = z3.Function("str_of", Val, Val)
STR_TOO_LONG = z3.Function("int_str_too_long", Val, T.B)

BUILTINS = {
    "isinstance": b_isinstance,
    "len": b_len,
    "type": b_type,
    "list": b_list,
    "tuple": b_tuple,
    "dict": b_dict,
    "set": b_set,
    "callable": b_callable,
    "str": b_str,
}


# ---------------------------------------------------------------------------
# calling a run-time value (user callable): pure total function of its arguments


def call_value(ex, node, st, fv: SV):
    outs = []
    for s, k, vs in _args(ex, node, st):
        if k == "exc":
            outs.append((s, k, vs))
            continue
        ft = as_val(fv)
        args = [ex.val_of(v) for v in vs]
        ex.assumed_calls.append(f"user callable `{ast.unparse(node.func)}` is a pure total function")
        if len(args) == 0:
            r = T.apply0(ft)
        elif len(args) == 1:
            r = T.apply1(ft, args[0])
        elif len(args) == 2:
            r = T.apply2(ft, args[0], args[1])
        else:
            raise Unsupported("user callable with >2 args")
        outs.append((s, "val", sv_val(r)))
    return outs


# ---------------------------------------------------------------------------
# instantiating repository classes: allocate + real __init__ (inlined) or dataclass fields


def call_class(ex, node, st, name: str):
    mod = T.classes().repo_module.get(name)
    real = T.classes().real_name.get(name, name)
    if name in getattr(ex.contract, "functional_classes", ()):
        return functional_instance(ex, node, st, name, mod, real)
    model = ex.registry.class_model(name)
    if model is not None:
        return model(ex, node, st)
    if mod is None:
        # builtin exception classes etc.: allocate, ignore arguments
        outs = []
        for s, k, vs in _args(ex, node, st):
            if k == "exc":
                outs.append((s, k, vs))
                continue
            o = ex.new_obj(s, K(name), "obj")
            outs.append((s, "val", sv_val(o)))
        return outs
    cdef = source.find_class(mod, real)
    init = None
    for stt in cdef.body:
        if isinstance(stt, ast.FunctionDef) and stt.name == "__init__":
            init = stt
    outs = []
    if init is not None:
        for s, k, vs in _args(ex, node, st):
            if k == "exc":
                outs.append((s, k, vs))
                continue
            o = ex.new_obj(s, K(name), "obj")
            outs.extend(inline_function(ex, s, init, [sv_val(o)] + vs[: len(node.args)], {kw.arg: v for kw, v in zip(node.keywords, vs[len(node.args) :])}, result=sv_val(o), module=mod))
        return outs
    # dataclass: assign declared fields positionally / by keyword
    is_dc = any((isinstance(d, ast.Name) and d.id == "dataclass") or (isinstance(d, ast.Call) and getattr(d.func, "id", getattr(d.func, "attr", "")) == "dataclass") for d in cdef.decorator_list)
    fields = source.dataclass_fields(mod, real)
    if not is_dc and not fields:
        raise Unsupported(f"instantiating class {name}")
    for s, k, vs in _args(ex, node, st):
        if k == "exc":
            outs.append((s, k, vs))
            continue
        o = ex.new_obj(s, K(name), "obj")
        h = Heap(ex, s)
        pos = vs[: len(node.args)]
        kw = {kw.arg: v for kw, v in zip(node.keywords, vs[len(node.args) :])}
        for fname, v in list(zip(fields, pos)) + list(kw.items()):
            hn = T.attr_heap(fname)
            h.set(hn, z3.Store(h.arr(hn), o, ex.val_of(v)))
        outs.append((s, "val", sv_val(o)))
    return outs


def inline_function(ex, st: State, fn: ast.FunctionDef, pos: List[SV], kw, result=None, module=None):
    """execute a callee's real body in place (tiny helpers / constructors only)"""
    params = [a.arg for a in fn.args.args]
    defaults = fn.args.defaults
    env = {}
    first_default = len(params) - len(defaults)
    for i, p in enumerate(params):
        if i < len(pos):
            env[p] = pos[i]
        elif p in kw:
            env[p] = kw[p]
        elif i >= first_default:
            d = defaults[i - first_default]
            evs = ex.eval(d, st)
            if len(evs) != 1 or evs[0][1] != "val":
                raise Unsupported("default value evaluation")
            env[p] = evs[0][2]
        else:
            raise Unsupported(f"missing argument {p} in inlined call of {fn.name}")
    saved_env, saved_mod = st.env, ex.module
    saved_kinds = getattr(ex.contract, "kinds", {})
    st.env = env
    if module is not None:
        ex.module = module
    try:
        outs = ex.exec_block(fn.body, st)
    finally:
        ex.module = saved_mod
    res = []
    for o in outs:
        o.state.env = dict(saved_env)
        if o.kind == "raise":
            res.append((o.state, "exc", o.value))
        elif o.kind == "return":
            res.append((o.state, "val", result if result is not None else o.value))
        elif o.kind == "normal":
            res.append((o.state, "val", result if result is not None else sv_val(T.None_)))
        else:
            raise Unsupported("break/continue escaping inlined function")
    return res


# ---------------------------------------------------------------------------
# modular call of a function under contract


def call_contract(ex: Executor, node, st, target: str, extra_first: List[SV] = ()):  # type: ignore
    callee = ex.registry.contract_for(target)
    if callee is None:
        raise Unsupported(f"callee {target} has no contract")
    fs = source.find_function(target)
    if getattr(callee, "inline", False):
        outs = []
        for s, k, vs in _args(ex, node, st):
            if k == "exc":
                outs.append((s, k, vs))
                continue
            pos = list(extra_first) + vs[: len(node.args)]
            kw = {kw.arg: v for kw, v in zip(node.keywords, vs[len(node.args) :])}
            outs.extend(inline_function(ex, s, fs.node, pos, kw, module=fs.module))
        return outs
    params = [a.arg for a in fs.node.args.args]
    vararg = fs.node.args.vararg.arg if fs.node.args.vararg else None
    outs = []
    star = [a for a in node.args if isinstance(a, ast.Starred)]
    plain = [a for a in node.args if not isinstance(a, ast.Starred)]
    star_nodes = []
    for a in star:
        comp = _as_setcomp(ex, a.value)
        star_nodes.append(comp if comp is not None else a.value)
    for s, k, vs in ex.eval_many(plain + star_nodes + [kw.value for kw in node.keywords], st):
        if k == "exc":
            outs.append((s, k, vs))
            continue
        pos = list(extra_first) + vs[: len(plain)]
        starvals = vs[len(plain) : len(plain) + len(star)]
        kwv = {kw.arg: v for kw, v in zip(node.keywords, vs[len(plain) + len(star) :])}
        bind = {}
        for i, p in enumerate(params):
            if i < len(pos):
                bind[p] = ex.val_of(pos[i])
            elif p in kwv:
                bind[p] = ex.val_of(kwv[p])
            else:
                di = i - (len(params) - len(fs.node.args.defaults))
                if di < 0:
                    raise Unsupported(f"missing argument {p} calling {target}")
                d = fs.node.args.defaults[di]
                if isinstance(d, ast.Constant) and d.value is None:
                    bind[p] = T.None_
                elif isinstance(d, ast.Constant) and isinstance(d.value, bool):
                    bind[p] = T.True_ if d.value else T.False_
                elif isinstance(d, ast.Constant) and isinstance(d.value, int):
                    bind[p] = T.mkint(d.value)
                elif isinstance(d, ast.Constant) and isinstance(d.value, str):
                    bind[p] = T.strc(d.value)
                elif isinstance(d, ast.Tuple) and not d.elts:
                    bind[p] = ex.new_list(s, z3.IntVal(0), T.EMPTY_ITEMS, K("tuple"), "tuple")
                else:
                    raise Unsupported(f"default of {p} calling {target}")
        for a, d in zip(fs.node.args.kwonlyargs, fs.node.args.kw_defaults):
            if a.arg in kwv:
                bind[a.arg] = ex.val_of(kwv[a.arg])
            elif isinstance(d, ast.Constant) and d.value is None:
                bind[a.arg] = T.None_
            elif isinstance(d, ast.Constant) and isinstance(d.value, bool):
                bind[a.arg] = T.True_ if d.value else T.False_
            else:
                raise Unsupported(f"keyword-only parameter {a.arg} calling {target}")
        if vararg is not None:
            extra = pos[len(params) :]
            if star and (extra or len(star) != 1):
                # f(a, *xs, *ys): the vararg tuple is only known by its MEMBERS (the extra positional
                # values and the members of every starred operand); order and length are unknown
                h = Heap(ex, s)
                t = ex.fresh("varargs")
                s.assume(cls(t) == K("tuple"), z3.Not(h.alloc(t)))
                h.set("alloc", z3.Store(h.arr("alloc"), t, True))
                xx = z3.Const("vx", Val)
                jj = z3.Int("vj")
                member = [xx == ex.val_of(v) for v in extra]
                n = h.llen(t)
                s.assume(n >= 0)
                for v in extra:
                    j0 = ex.fresh("vpos", T.I)
                    s.assume(j0 >= 0, j0 < n, h.lget(t, j0) == ex.val_of(v))
                for a, v in zip(star, starvals):
                    kind = "set" if _as_setcomp(ex, a.value) is not None else ex.container_kind(a.value)
                    src = as_val(v)
                    if kind in ("list", "tuple", "seq"):
                        member.append(z3.Exists([jj], z3.And(jj >= 0, jj < h.llen(src), xx == h.lget(src, jj))))
                        j2 = z3.Int("vj2")
                        s.assume(T.forall([j2], z3.Implies(z3.And(j2 >= 0, j2 < h.llen(src)), z3.Exists([jj], z3.And(jj >= 0, jj < n, h.lget(t, jj) == h.lget(src, j2)))), patterns=[h.lget(src, j2)]))
                    elif kind in ("dict", "set"):
                        inn = h.arr("dhas")[src][xx]
                        member.append(inn)
                        s.assume(T.forall([xx], z3.Implies(inn, z3.Exists([jj], z3.And(jj >= 0, jj < n, h.lget(t, jj) == xx))), patterns=[inn]))
                    else:
                        raise Unsupported(f"starred argument of kind {kind}")
                mem = z3.Or(*member)
                s.assume(T.forall([jj], z3.Implies(z3.And(jj >= 0, jj < n), z3.substitute(mem, (xx, h.lget(t, jj)))), patterns=[h.lget(t, jj)]))
                bind[vararg] = t
            elif star:
                bind[vararg] = ("star", as_val(starvals[0]))
            else:
                arr = T.EMPTY_ITEMS
                for j, v in enumerate(extra):
                    arr = z3.Store(arr, j, ex.val_of(v))
                bind[vararg] = ex.new_list(s, z3.IntVal(len(extra)), arr, K("tuple"), "tuple")
            if isinstance(bind[vararg], tuple):
                # f(*xs): the vararg tuple has the items of xs (xs must be a sequence or dict keys; caller hint)
                src = bind[vararg][1]
                kind = ex.container_kind(star[0].value)
                h = Heap(ex, s)
                if kind in ("list", "tuple", "seq"):
                    bind[vararg] = ex.new_list(s, h.llen(src), h.arr("lget")[src], K("tuple"), "tuple")
                else:
                    # iteration order of a dict / generator: an unknown tuple
                    t = ex.fresh("varargs")
                    s.assume(cls(t) == K("tuple"))
                    bind[vararg] = t
        elif star:
            raise Unsupported("starred call of function without *args")
        # name the argument values: a contract's quantifier patterns must not contain the
        # if-then-else terms produced by merged evaluation paths
        for pname, t in list(bind.items()):
            if os.environ.get("PYVC_NO_NAMING"):
                break
            if z3.is_expr(t) and not (z3.is_const(t) and t.decl().kind() == z3.Z3_OP_UNINTERPRETED):
                a = ex.fresh("arg_" + pname, t.sort())
                s.assume(a == t)
                bind[pname] = a
        outs.extend(apply_contract(ex, s, callee, bind, node))
    return outs


def _mod_pairs(mods):
    out = []
    for m in mods:
        if isinstance(m, tuple):
            out.append(m)
        else:
            out.append((m, z3.BoolVal(True)))
    return out


def apply_contract(ex: Executor, st: State, callee, bind, node):
    """assert requires, havoc what the callee modifies / allocates, assume ensures, per outcome kind"""
    ex.registry.note_use(ex.contract.target, callee.target)
    cctx = CalleeCtx(ex, st, bind)
    for j, r in enumerate(callee.requires(cctx)):
        ex.oblige(f"precondition #{j} of {callee.target.split(':')[1]}", st, r, node, kind="pre")
    if hasattr(callee, "decreases") and callee.target.split("#")[0] == ex.contract.target.split("#")[0]:
        # recursion: the callee's measure is a non-negative integer strictly below the caller's
        mine = ex.contract.decreases(ex.ctx)
        theirs = callee.decreases(cctx)
        ex.oblige("termination: the measure of the recursive call is non-negative and strictly smaller", st, z3.And(theirs >= 0, theirs < mine), node, kind="pre")
    mods = _mod_pairs(callee.modifies(cctx)) if hasattr(callee, "modifies") else []
    for o, guard in mods:
        allowed = z3.Or(z3.Not(T.alloc0[o]), *[o == m for m in ex.modifies_terms])
        ex.oblige(f"frame: {callee.target.split(':')[1]} modifies only fresh or `modifies` objects", st, z3.Implies(guard, allowed), node, kind="frame")
    outs = []
    raises = getattr(callee, "raises", [])
    kinds = ["return"] + (["raise"] if raises else [])
    pre_heap = dict(st.heap)
    writes = getattr(callee, "writes", [])
    for kind in kinds:
        s = st.fork()
        result = ex.fresh("ret") if kind == "return" else None
        exc = ex.fresh("cexc") if kind == "raise" else None
        h = Heap(ex, s)
        for hn in writes:
            arr = h.arr(hn)
            for o, guard in mods:
                arr = z3.If(guard, z3.Store(arr, o, ex.fresh("hv", arr.sort().range())), arr) if not z3.is_true(guard) else z3.Store(arr, o, ex.fresh("hv", arr.sort().range()))
            h.set(hn, arr)
        for hn in getattr(callee, "havoc_arrays", []):
            # ghost state the callee may change anywhere (described by its ensures)
            h.set(hn, ex.fresh(hn.replace(":", "_") + "_call", T.heap_sort(hn)))
        fake = Outcome(kind, s, sv_val(result) if kind == "return" else exc)
        if hasattr(callee, "allocates"):
            n_alloc = len(callee.allocates(CalleePostCtx(ex, s, bind, fake, pre_heap)))
            for idx in range(n_alloc):
                post = CalleePostCtx(ex, s, bind, fake, pre_heap)
                entry = callee.allocates(post)[idx]
                klass, term = entry[0], entry[1]
                guard = z3.simplify(entry[2]) if len(entry) > 2 else z3.BoolVal(True)
                pre_alloc = pre_heap_get(ex, pre_heap, "alloc")
                s.assume(z3.Implies(guard, z3.And(z3.Not(pre_alloc[term]), cls(term) == K(klass))))
                ite = (lambda a, b: a) if z3.is_true(guard) else (lambda a, b: z3.If(guard, a, b))
                h.set("alloc", ite(z3.Store(h.arr("alloc"), term, True), h.arr("alloc")))
                for hn in writes:
                    arr = h.arr(hn)
                    h.set(hn, ite(z3.Store(arr, term, ex.fresh("hv", arr.sort().range())), arr))
        post = CalleePostCtx(ex, s, bind, fake, pre_heap)
        for name, g in callee.ensures(post).items():
            s.assume(g)
        if kind == "raise":
            s.assume(z3.Or(*[isinst(exc, n) for n in raises]))
        if ex.feasible(s):
            outs.append((s, "val", sv_val(result)) if kind == "return" else (s, "exc", exc))
    return outs


def pre_heap_get(ex, pre_heap, name):
    return pre_heap.get(name, T.heap0(name))


class CalleeCtx(SpecCtx):
    """a callee's contract evaluated at a call site: `entry heap` = heap at the call"""

    def __init__(self, ex, st, bind):
        super().__init__(ex, st, bind)
        self.pre_heap = dict(st.heap)

    def _pre(self, name):
        self.ex.touch_heap(name)
        arr = self.pre_heap.get(name, T.heap0(name))
        if (z3.is_const(arr) and arr.decl().kind() == z3.Z3_OP_UNINTERPRETED) or os.environ.get("PYVC_NO_NAMING"):
            return arr
        # the heap at the call is a compound term (stores, if-then-else of merged paths): name it, so
        # that the callee's quantifier patterns over its entry heap are legal triggers
        named = getattr(self, "_named_pre", None)
        if named is None:
            named = self._named_pre = {}
        if name not in named:
            a = self.ex.fresh("pre_" + name.replace(":", "_"), arr.sort())
            self.st.assume(a == arr)
            named[name] = a
        return named[name]

    def attr0(self, o, name):
        return self._pre(T.attr_heap(name))[o]

    def llen0(self, o):
        return self._pre("llen")[o]

    def lget0(self, o, i):
        return self._pre("lget")[o][i]

    def dhas0(self, o, k):
        return self._pre("dhas")[o][k]

    def dget0(self, o, k):
        return self._pre("dget")[o][k]

    def dlen0(self, o):
        return self._pre("dlen")[o]

    def arr0(self, name, o):
        return self._pre(name)[o]

    def fresh(self, o):
        return z3.And(z3.Not(self._pre("alloc")[o]), self.alloc(o))

    def alloc0(self, o):
        return self._pre("alloc")[o]


class CalleePostCtx(CalleeCtx):
    def __init__(self, ex, st, bind, outcome, pre_heap):
        SpecCtx.__init__(self, ex, st, bind)
        self.pre_heap = pre_heap
        self.returned = z3.BoolVal(outcome.kind == "return")
        self.raised = z3.BoolVal(outcome.kind == "raise")
        self.is_return = outcome.kind == "return"
        self.is_raise = outcome.kind == "raise"
        self.result = as_val(outcome.value) if outcome.kind == "return" else T.None_
        self.exc = outcome.value if outcome.kind == "raise" else T.None_


# ---------------------------------------------------------------------------
# method calls


def call_super(ex, node, st):
    meth = node.func.attr
    if ex.fn.cls is None:
        raise Unsupported("super() outside class")
    bases = source.class_bases(ex.fn.module).get(ex.fn.cls.name, [])
    bases = list(bases)
    for b in bases:
        target = f"{ex.fn.module}:{b}.{meth}"
        if ex.registry.contract_for(target) is not None:
            return call_contract(ex, node, st, target, extra_first=[st.env["self"]])
    raise Unsupported(f"super().{meth} has no contract")


def call_method(ex: Executor, node, st):
    f = node.func
    meth = f.attr
    # static receiver: module / class attribute call like `ValidationError.from_errors` not supported
    outs = []
    for s, k, recv in ex.eval(f.value, st):
        if k == "exc":
            outs.append((s, k, recv))
            continue
        if recv.kind in ("class", "func"):
            raise Unsupported(f"static method call {ast.unparse(f)} at {ex.where(node)}")
        rt = as_val(recv)
        if isinstance(f.value, ast.Name) and f.value.id == "self" and ex.fn.cls is not None:
            target = f"{ex.fn.module}:{ex.fn.cls.name}.{meth}"
            if ex.registry.contract_for(target) is not None:
                outs.extend(call_contract(ex, node, s, target, extra_first=[recv]))
                continue
        if meth in getattr(ex.contract, "abstract_methods", ()):
            # a method of the visitor machinery outside the proof: an uninterpreted function of
            # the receiver and the arguments (pure, total)
            for s2, k2, vs in _args(ex, node, s):
                if k2 == "exc":
                    outs.append((s2, k2, vs))
                    continue
                fn = z3.Function(f"absm_{meth}_{len(vs)}", *([Val] * (len(vs) + 1)), Val)
                r = fn(rt, *[ex.val_of(v) for v in vs])
                outs.append((s2, "val", sv_val(r)))
            continue
        model = ex.registry.method_model(meth)
        if model is not None and not _is_container(ex, f.value):
            outs.extend(model(ex, node, s, rt))
            continue
        cm = CONTAINER_METHODS.get(meth)
        if cm is None and meth in getattr(ex.contract, "callable_attrs", ()):
            # obj.attr(...) where attr holds a user callable
            fv = sv_val(Heap(ex, s).attr(rt, meth))
            outs.extend(call_value(ex, node, s, fv))
            continue
        if cm is None:
            raise Unsupported(f"method .{meth}() at {ex.where(node)} has no model")
        outs.extend(cm(ex, node, s, rt))
    return outs


def _is_container(ex, node) -> bool:
    return ast.unparse(node) in getattr(ex.contract, "kinds", {})


def m_append(ex, node, st, rt):
    outs = []
    for s, k, vs in _args(ex, node, st):
        if k == "exc":
            outs.append((s, k, vs))
            continue
        if ex.container_kind(node.func.value) != "list":
            raise Unsupported("append on non-list")
        bad = s.fork().assume(z3.Not(isinst(rt, "list")))
        if ex.feasible(bad):
            outs.append(_exc(ex, bad, "AttributeError"))
        s.assume(isinst(rt, "list"))
        ex.check_store_allowed(s, rt, node)
        h = Heap(ex, s)
        n = h.llen(rt)
        h.set("lget", z3.Store(h.arr("lget"), rt, z3.Store(h.arr("lget")[rt], n, ex.val_of(vs[0]))))
        h.set("llen", z3.Store(h.arr("llen"), rt, n + 1))
        outs.append((s, "val", sv_val(T.None_)))
    return outs


def m_extend(ex, node, st, rt):
    outs = []
    for s, k, vs in _args(ex, node, st):
        if k == "exc":
            outs.append((s, k, vs))
            continue
        if ex.container_kind(node.func.value) != "list" or ex.container_kind(node.args[0]) not in ("list", "tuple", "seq"):
            raise Unsupported("extend kinds")
        src = as_val(vs[0])
        bad = s.fork().assume(z3.Not(z3.And(isinst(rt, "list"), z3.Or(isinst(src, "list"), isinst(src, "tuple")))))
        if ex.feasible(bad):
            outs.append(_exc(ex, bad, "TypeError"))
        s.assume(isinst(rt, "list"), z3.Or(isinst(src, "list"), isinst(src, "tuple")))
        ex.check_store_allowed(s, rt, node)
        h = Heap(ex, s)
        n, m = h.llen(rt), h.llen(src)
        new = ex.fresh("ext", T.ArrIV)
        j = z3.Int("j")
        old_items, src_items = h.arr("lget")[rt], h.arr("lget")[src]
        s.assume(T.forall([j], z3.Implies(z3.And(j >= 0, j < n), new[j] == old_items[j]), patterns=[new[j]]))
        s.assume(T.forall([j], z3.Implies(z3.And(j >= n, j < n + m), new[j] == src_items[j - n]), patterns=[new[j]]))
        h.set("lget", z3.Store(h.arr("lget"), rt, new))
        h.set("llen", z3.Store(h.arr("llen"), rt, n + m))
        outs.append((s, "val", sv_val(T.None_)))
    return outs


def m_add(ex, node, st, rt):
    outs = []
    for s, k, vs in _args(ex, node, st):
        if k == "exc":
            outs.append((s, k, vs))
            continue
        if ex.container_kind(node.func.value) != "set":
            raise Unsupported("add on non-set")
        kt = ex.val_of(vs[0])
        unh = s.fork().assume(z3.Not(T.hashable(kt)))
        if ex.feasible(unh):
            outs.append(_exc(ex, unh, "TypeError"))
        s.assume(T.hashable(kt), isinst(rt, "set"))
        ex.check_store_allowed(s, rt, node)
        ex.dict_store(s, rt, kt, T.None_)
        outs.append((s, "val", sv_val(T.None_)))
    return outs


def m_copy(ex, node, st, rt):
    if ex.container_kind(node.func.value) == "set":
        h = Heap(ex, st)
        bad = st.fork().assume(z3.Not(isinst(rt, "set")))
        outs = []
        if ex.feasible(bad):
            outs.append(_exc(ex, bad, "AttributeError"))
        st.assume(isinst(rt, "set"))
        o = ex.new_dict(st, h.arr("dhas")[rt], T.NOGET, h.dlen(rt), K("set"), "set")
        outs.append((st, "val", sv_val(o)))
        return outs
    if ex.container_kind(node.func.value) != "dict":
        raise Unsupported("copy on non-dict")
    h = Heap(ex, st)
    bad = st.fork().assume(z3.Not(isinst(rt, "dict")))
    outs = []
    if ex.feasible(bad):
        outs.append(_exc(ex, bad, "AttributeError"))
    st.assume(isinst(rt, "dict"))
    o = ex.new_dict(st, h.arr("dhas")[rt], h.arr("dget")[rt], h.dlen(rt))
    outs.append((st, "val", sv_val(o)))
    return outs


def m_get(ex, node, st, rt):
    outs = []
    for s, k, vs in _args(ex, node, st):
        if k == "exc":
            outs.append((s, k, vs))
            continue
        if ex.container_kind(node.func.value) != "dict":
            raise Unsupported("get on non-dict")
        kt = ex.val_of(vs[0])
        default = ex.val_of(vs[1]) if len(vs) > 1 else T.None_
        unh = s.fork().assume(z3.Not(T.hashable(kt)))
        if ex.feasible(unh):
            outs.append(_exc(ex, unh, "TypeError"))
        s.assume(T.hashable(kt), isinst(rt, "dict"))
        h = Heap(ex, s)
        outs.append((s, "val", sv_val(z3.If(h.dhas(rt, kt), h.dget(rt, kt), default))))
    return outs


CONTAINER_METHODS = {
    "append": m_append,
    "extend": m_extend,
    "add": m_add,
    "copy": m_copy,
    "get": m_get,
}


# ---------------------------------------------------------------------------
# comprehensions: one `for` clause (sequence, enumerate(sequence), dict.items() / keys), no `if`.
# The element expression is evaluated once on a symbolic element; the result container is
# described by quantified facts; an exception raised for some element propagates (for the first
# such element of a sequence).


def _comp_domain(ex, gen, st):
    """-> (state, sort, u, dom(u) as a function, bind(state_u), ordered) or raises Unsupported"""
    if gen.is_async:
        raise Unsupported(f"async comprehension at {ex.where(gen.iter)}")
    _comp_domain.last_lo = None
    it = gen.iter
    enum = False
    if isinstance(it, ast.Call) and isinstance(it.func, ast.Name) and it.func.id == "enumerate":
        enum, it = True, it.args[0]
    if isinstance(it, ast.Call) and isinstance(it.func, ast.Attribute) and it.func.attr in ("items", "keys", "values") and not it.args:
        mode, base = it.func.attr, it.func.value
        evs = ex.eval(base, st)
        if len(evs) != 1 or evs[0][1] != "val":
            raise Unsupported("comprehension source raising")
        s, _, d = evs[0]
        dt = as_val(d)
        s.assume(z3.Or(isinst(dt, "dict")))
        h = Heap(ex, s)
        u = ex.fresh("ck")
        has, get = h.arr("dhas")[dt], h.arr("dget")[dt]

        def bind(su):
            tgt = gen.target
            if mode == "items":
                su.env[tgt.elts[0].id] = sv_val(u)
                su.env[tgt.elts[1].id] = sv_val(get[u])
            elif mode == "keys":
                su.env[tgt.id] = sv_val(u)
            else:
                su.env[tgt.id] = sv_val(get[u])

        return s, u, (lambda x: has[x]), bind, False, None
    lo_node = None
    if isinstance(it, ast.Subscript) and isinstance(it.slice, ast.Slice):
        # xs[lo:] : the suffix of a sequence
        if it.slice.upper is not None or it.slice.step is not None or it.slice.lower is None:
            raise Unsupported(f"slice form in comprehension source at {ex.where(it)}")
        lo_node, it = it.slice.lower, it.value
    kind = ex.container_kind(it)
    evs = ex.eval_many([it] + ([lo_node] if lo_node is not None else []), st)
    if len(evs) != 1 or evs[0][1] != "val":
        raise Unsupported("comprehension source raising")
    s, _, qs = evs[0]
    q = qs[0]
    qt = as_val(q)
    if lo_node is not None and kind not in ("list", "tuple", "seq"):
        raise Unsupported("sliced comprehension source that is not a sequence")
    if kind in ("list", "tuple", "seq"):
        s.assume(z3.Or(isinst(qt, "list"), isinst(qt, "tuple")))
        h = Heap(ex, s)
        u = ex.fresh("cj", T.I)
        n = h.llen(qt)
        items = h.arr("lget")[qt]
        lo = z3.IntVal(0)
        if lo_node is not None:
            from .symexec import as_int

            l0 = as_int(qs[1])
            l0 = z3.If(l0 < 0, z3.If(n + l0 < 0, 0, n + l0), l0)
            lo = z3.If(l0 > n, n, l0)
        _comp_domain.last_lo = lo

        def bind(su):
            tgt = gen.target
            if enum:
                su.env[tgt.elts[0].id] = sv_int(u)
                su.env[tgt.elts[1].id] = sv_val(items[u])
            else:
                su.env[tgt.id] = sv_val(items[u])

        return s, u, (lambda x: z3.And(x >= lo, x < n)), bind, True, n
    if kind in ("dict", "set") and not enum:
        # iterating a dict / set: its keys / members (order not modelled)
        s.assume(z3.Or(isinst(qt, "dict"), isinst(qt, "set"), isinst(qt, "frozenset")))
        h = Heap(ex, s)
        u = ex.fresh("ck")
        has = h.arr("dhas")[qt]

        def bind_k(su):
            su.env[gen.target.id] = sv_val(u)

        return s, u, (lambda x: has[x]), bind_k, False, None
    raise Unsupported(f"comprehension over kind {kind}")


class _Skolemizer:
    """constants created while the element expression was evaluated on the symbolic element `u`
    (results of callee contracts, havoc values) denote one value PER element: they are replaced by
    applications of fresh functions of `u`, so that the later substitution u := u' renames them too"""

    def __init__(self, ex, n0, u):
        self.ex, self.n0, self.u, self.map = ex, n0, u, {}

    def __call__(self, term):
        import re

        todo, seen, subs = [term], set(), []
        while todo:
            t = todo.pop()
            if t.get_id() in seen:
                continue
            seen.add(t.get_id())
            if z3.is_const(t) and t.decl().kind() == z3.Z3_OP_UNINTERPRETED:
                m = re.search(r"!(\d+)$", t.decl().name())
                if m and int(m.group(1)) > self.n0 and not t.eq(self.u):
                    key = t.decl().name()
                    if key not in self.map:
                        import os

                        if os.environ.get("PYVC_TRACE_SKOLEM"):
                            print("skolemized in comprehension:", self.ex.contract.target, key)
                        f = z3.Function("sk_" + key, self.u.sort(), t.sort())
                        self.map[key] = (t, f(self.u))
                    subs.append(self.map[key])
            elif z3.is_app(t):
                todo.extend(t.children())
            elif z3.is_quantifier(t):
                todo.append(t.body())
        return z3.substitute(term, *subs) if subs else term


def _sk_sv(sk, v):
    from .symexec import SV

    if isinstance(v, SV) and v.kind in ("val", "bool", "int"):
        return SV(v.kind, sk(v.t))
    return v


def _comp_eval(ex, node, st, exprs):
    """evaluate `exprs` on a symbolic element: -> (state, u, dom, ordered, n, ok(u), [value terms], raise_cases)"""
    if len(node.generators) != 1:
        raise Unsupported("comprehension with several for clauses")
    gen = node.generators[0]
    s, u, dom0, bind, ordered, n = _comp_domain(ex, gen, st)
    lo = _comp_domain.last_lo
    _comp_eval.seq = (lo, n) if ordered and lo is not None else None  # source positions [lo, n)
    _comp_eval.filtered = bool(gen.ifs)
    dom = dom0
    if gen.ifs:
        # the filter must be a pure total boolean of the element
        sf = s.fork().assume(dom0(u))
        bind(sf)
        cond_node = gen.ifs[0] if len(gen.ifs) == 1 else ast.BoolOp(op=ast.And(), values=list(gen.ifs))
        if len(gen.ifs) > 1:
            ast.copy_location(cond_node, gen.ifs[0])
        pv = ex.eval_pure(cond_node, sf, z3.BoolVal(True))
        if pv is None:
            raise Unsupported(f"comprehension filter with effects or exceptions at {ex.where(gen.iter)}")
        keep = ex.truthy(sf, pv)
        dom = lambda x: z3.And(dom0(x), z3.substitute(keep, (u, x)))  # noqa: E731
        ordered = False  # positions of kept elements are not modelled
        n = None
    su = s.fork()
    su.assume(dom(u))
    bind(su)
    base_len = len(su.pc)
    heap_before = dict(su.heap)
    n0 = ex.fresh_n
    outs = ex.eval_many(exprs, su)
    sk = _Skolemizer(ex, n0, u)
    oks, excs = [], []
    for so, k, vs in outs:
        cond = sk(z3.And(*so.pc[base_len:])) if len(so.pc) > base_len else z3.BoolVal(True)
        vs = sk(vs) if k == "exc" else [_sk_sv(sk, v) for v in vs]
        for hn, arr in so.heap.items():
            before = heap_before[hn] if hn in heap_before else T.heap0(hn)
            if not arr.eq(before) and hn != "alloc":
                raise Unsupported("comprehension element with a heap effect")
        if k == "exc":
            excs.append((cond, vs))
        else:
            oks.append((cond, [ex.val_of(v) for v in vs]))
    if not oks:
        raise Unsupported("comprehension element always raising")
    ok = z3.Or(*[c for c, _ in oks])
    vals = []
    for i in range(len(exprs)):
        t = oks[-1][1][i]
        for c, vs in reversed(oks[:-1]):
            t = z3.If(c, vs[i], t)
        vals.append(t)
    s.env = dict(st.env)
    return s, u, dom, ordered, n, ok, vals, excs


def _comp_outcomes(ex, s, u, dom, ordered, ok, excs, build):
    """normal outcome when every element evaluates; else the exception of a failing element"""
    outs = []
    ub = z3.Const("cu", u.sort())
    all_ok = T.forall([ub], z3.Implies(dom(ub), z3.substitute(ok, (u, ub))))
    good = s.fork().assume(all_ok)
    if ex.feasible(good):
        outs.append((good, "val", sv_val(build(good))))
    if excs:
        bad = s.fork()
        u0 = ex.fresh("cfail", u.sort())
        bad.assume(dom(u0), z3.Not(z3.substitute(ok, (u, u0))))
        if ordered:
            bad.assume(T.forall([ub], z3.Implies(z3.And(dom(ub), ub < u0), z3.substitute(ok, (u, ub)))))
        for cond, e in excs:
            b2 = bad.fork().assume(z3.substitute(cond, (u, u0)))
            if ex.feasible(b2):
                outs.append((b2, "exc", z3.substitute(e, (u, u0))))
    return outs


def eval_listcomp(ex, node, st):
    s, u, dom, ordered, n, ok, vals, excs = _comp_eval(ex, node, st, [node.elt])
    seq, filtered = _comp_eval.seq, _comp_eval.filtered
    if not ordered and seq is not None and filtered and getattr(ex.contract, "ordered_filter", False):
        # filtered comprehension over a sequence: the kept elements IN SOURCE ORDER.  pos maps result
        # positions to source positions (strictly increasing, onto the kept positions), inv is its inverse
        lo, nn = seq

        def build_ordered(g):
            arr = ex.fresh("lco", T.ArrIV)
            ln = ex.fresh("lcol", T.I)
            pos = z3.Function(f"pos!{ex.fresh_n}", T.I, T.I)
            inv = z3.Function(f"inv!{ex.fresh_n}", T.I, T.I)
            ex.fresh_n += 1
            k1, k2, jj = z3.Int("ck1"), z3.Int("ck2"), z3.Int("cjj")
            val = lambda t: z3.substitute(vals[0], (u, t))  # noqa: E731
            g.assume(ln >= 0, ln <= nn - lo)
            g.assume(T.forall([k1], z3.Implies(z3.And(k1 >= 0, k1 < ln), z3.And(dom(pos(k1)), arr[k1] == val(pos(k1)), inv(pos(k1)) == k1)), patterns=[pos(k1)]))
            g.assume(T.forall([k1], z3.Implies(z3.And(k1 >= 0, k1 < ln), z3.And(dom(pos(k1)), arr[k1] == val(pos(k1)))), patterns=[arr[k1]]))
            g.assume(T.forall([k1, k2], z3.Implies(z3.And(k1 >= 0, k1 < k2, k2 < ln), pos(k1) < pos(k2)), patterns=[z3.MultiPattern(pos(k1), pos(k2))]))
            g.assume(T.forall([jj], z3.Implies(dom(jj), z3.And(inv(jj) >= 0, inv(jj) < ln, pos(inv(jj)) == jj)), patterns=[inv(jj)]))
            o = ex.new_list(g, ln, arr, hint="list")
            # per path: the sidecar's proof steps may name the index maps of the latest filtered list
            g.ghost["last_filtered"] = (o, pos, inv, dom)
            return o

        return _comp_outcomes(ex, s, u, dom, False, ok, excs, build_ordered)
    if not ordered:
        # filtered (or unordered-source) comprehension: a fresh list characterised by membership
        # (every kept element occurs, nothing else occurs); positions are not modelled
        def build_members(g):
            arr = ex.fresh("lcf", T.ArrIV)
            ln = ex.fresh("lcfl", T.I)
            ub = z3.Const("cu", u.sort())
            jj = z3.Int("cjj")
            g.assume(ln >= 0)
            g.assume(T.forall([ub], z3.Implies(dom(ub), z3.Exists([jj], z3.And(jj >= 0, jj < ln, arr[jj] == z3.substitute(vals[0], (u, ub)))))))
            g.assume(T.forall([jj], z3.Implies(z3.And(jj >= 0, jj < ln), z3.Exists([ub], z3.And(dom(ub), arr[jj] == z3.substitute(vals[0], (u, ub))))), patterns=[arr[jj]]))
            return ex.new_list(g, ln, arr, hint="list")

        return _comp_outcomes(ex, s, u, dom, False, ok, excs, build_members)

    lo0 = seq[0] if seq is not None else z3.IntVal(0)

    def build(g):
        arr = ex.fresh("lc", T.ArrIV)
        ub = z3.Int("cu")
        g.assume(T.forall([ub], z3.Implies(dom(ub), arr[ub - lo0] == z3.substitute(vals[0], (u, ub))), patterns=[arr[ub - lo0]]))
        return ex.new_list(g, n - lo0, arr, hint="list")

    return _comp_outcomes(ex, s, u, dom, ordered, ok, excs, build)


def eval_dictcomp(ex, node, st):
    s, u, dom, ordered, n, ok, vals, excs = _comp_eval(ex, node, st, [node.key, node.value])

    def build(g):
        has, get = ex.fresh("dch", T.ArrVB), ex.fresh("dcg", T.ArrVV)
        ub = z3.Const("cu", u.sort())
        x = z3.Const("cx", Val)
        kx = lambda t: z3.substitute(vals[0], (u, t))  # noqa: E731
        vx = lambda t: z3.substitute(vals[1], (u, t))  # noqa: E731
        g.assume(T.forall([ub], z3.Implies(dom(ub), has[kx(ub)])))
        g.assume(T.forall([x], z3.Implies(has[x], z3.Exists([ub], z3.And(dom(ub), x == kx(ub), get[x] == vx(ub)))), patterns=[has[x]]))
        ln = ex.fresh("dcl", T.I)
        g.assume(ln >= 0, (ln == 0) == z3.Not(z3.Exists([ub], dom(ub))))
        return ex.new_dict(g, has, get, ln, hint="dict")

    return _comp_outcomes(ex, s, u, dom, ordered, ok, excs, build)


# --- float(x) / int(x): conversions of primitives ---------------------------------------
INT2FLOAT = z3.Function("int2float", Val, Val)
FLOAT_OVERFLOW = z3.Function("float_overflow", Val, T.B)


def b_float(ex, node, st):
    """float(x) for x an int (the only use in the targets): the float int2float(x), or
    OverflowError when |x| >= 2**1024 (abstracted as the predicate float_overflow(x))"""
    outs = []
    for s, k, vs in ex.eval_many(node.args, st):
        if k == "exc":
            outs.append((s, k, vs))
            continue
        x = ex.val_of(vs[0])
        c = cls(x)
        isf = s.fork().assume(sub(c, K("float")))
        if ex.feasible(isf):
            outs.append((isf, "val", sv_val(x)))
        isi = s.fork().assume(z3.Not(sub(c, K("float"))), sub(c, K("int")))
        if ex.feasible(isi):
            ok = isi.fork().assume(z3.Not(FLOAT_OVERFLOW(x)))
            r = INT2FLOAT(x)
            ok.assume(cls(r) == K("float"), T.alloc0[r])
            outs.append((ok, "val", sv_val(r)))
            ov = isi.fork().assume(FLOAT_OVERFLOW(x))
            if ex.feasible(ov):
                outs.append(_exc(ex, ov, "OverflowError"))
        oth = s.fork().assume(z3.Not(sub(c, K("float"))), z3.Not(sub(c, K("int"))))
        if ex.feasible(oth):
            # str -> ValueError or a float, None / containers -> TypeError: both possible
            outs.append(_exc(ex, oth.fork(), "TypeError"))
            outs.append(_exc(ex, oth.fork(), "ValueError"))
            r2 = ex.fresh("flt")
            oth.assume(cls(r2) == K("float"))
            outs.append((oth, "val", sv_val(r2)))
    return outs


BUILTINS["float"] = b_float


# --- coercers: user functions (cls, data) -> value, which reject by raising ValidationError ----
COERCE_OK = z3.Function("coerce_ok", Val, Val, Val, T.B)
COERCED = z3.Function("coerced", Val, Val, Val, Val)
COERCE_ERR = z3.Function("coerce_err", Val, Val, Val, Val)


def call_coercer(ex, node, st):
    """coercer(cls, data): returns coerced(f, cls, data) iff coerce_ok(f, cls, data), else raises
    the ValidationError coerce_err(f, cls, data); other exceptions of user coercers are excepted
    by the statement of C03"""
    outs = []
    for s, k, vs in ex.eval_many([node.func] + list(node.args), st):
        if k == "exc":
            outs.append((s, k, vs))
            continue
        f, c, d = (ex.val_of(v) for v in vs)
        ok = s.fork().assume(COERCE_OK(f, c, d))
        ko = s.fork().assume(z3.Not(COERCE_OK(f, c, d)))
        if ex.feasible(ok):
            outs.append((ok, "val", sv_val(COERCED(f, c, d))))
        if ex.feasible(ko):
            e = COERCE_ERR(f, c, d)
            ko.assume(cls(e) == K("ValidationError"), T.alloc0[e])
            outs.append((ko, "exc", e))
    return outs


# --- int(x) / bool(x) -----------------------------------------------------------------
INT_OF = z3.Function("int_of", Val, Val)
INT_PARSE_OK = z3.Function("int_parse_ok", Val, T.B)
FLOAT_PARSE_OK = z3.Function("float_parse_ok", Val, T.B)
FLOAT_OF_STR = z3.Function("float_of_str", Val, Val)
FLOAT_TO_INT_OK = z3.Function("float_to_int_ok", Val, T.B)  # finite


def b_int(ex, node, st):
    """int(x): int -> x (its int value); float -> truncation, OverflowError for inf, ValueError
    for nan; str -> parse or ValueError; anything else of the builtin classes -> TypeError"""
    outs = []
    for s, k, vs in ex.eval_many(node.args, st):
        if k == "exc":
            outs.append((s, k, vs))
            continue
        x = ex.val_of(vs[0])
        c = cls(x)
        si = s.fork().assume(sub(c, K("int")))
        if ex.feasible(si):
            outs.append((si, "val", sv_val(T.mkint(T.ival(x)))))
        sf = s.fork().assume(sub(c, K("float")))
        if ex.feasible(sf):
            ok = sf.fork().assume(FLOAT_TO_INT_OK(x))
            r = INT_OF(x)
            ok.assume(cls(r) == K("int"), T.alloc0[r])
            outs.append((ok, "val", sv_val(r)))
            bad = sf.fork().assume(z3.Not(FLOAT_TO_INT_OK(x)))
            outs.append(_exc(ex, bad.fork(), "OverflowError"))
            outs.append(_exc(ex, bad.fork(), "ValueError"))
        ss = s.fork().assume(sub(c, K("str")))
        if ex.feasible(ss):
            ok = ss.fork().assume(INT_PARSE_OK(x))
            r = INT_OF(x)
            ok.assume(cls(r) == K("int"), T.alloc0[r])
            outs.append((ok, "val", sv_val(r)))
            outs.append(_exc(ex, ss.fork().assume(z3.Not(INT_PARSE_OK(x))), "ValueError"))
        so = s.fork().assume(z3.Not(z3.Or(sub(c, K("int")), sub(c, K("float")), sub(c, K("str")))))
        if ex.feasible(so):
            # None, containers: TypeError; other classes may define __int__ / __index__ (unknown)
            outs.append(_exc(ex, so.fork(), "TypeError"))
            other = so.fork().assume(z3.Not(z3.Or(x == T.None_, sub(c, K("list")), sub(c, K("dict")), sub(c, K("tuple")), sub(c, K("set")))))
            if ex.feasible(other):
                r = ex.fresh("intv")
                other.assume(cls(r) == K("int"))
                outs.append((other, "val", sv_val(r)))
    return outs


def b_float_full(ex, node, st):
    outs = []
    for s, k, vs in ex.eval_many(node.args, st):
        if k == "exc":
            outs.append((s, k, vs))
            continue
        x = ex.val_of(vs[0])
        c = cls(x)
        ss = s.fork().assume(sub(c, K("str")))
        rest = s.fork().assume(z3.Not(sub(c, K("str"))))
        if ex.feasible(ss):
            ok = ss.fork().assume(FLOAT_PARSE_OK(x))
            r = FLOAT_OF_STR(x)
            ok.assume(cls(r) == K("float"), T.alloc0[r])
            outs.append((ok, "val", sv_val(r)))
            outs.append(_exc(ex, ss.fork().assume(z3.Not(FLOAT_PARSE_OK(x))), "ValueError"))
        if ex.feasible(rest):
            isnum = z3.Or(sub(c, K("float")), sub(c, K("int")))
            num = rest.fork().assume(isnum)
            if ex.feasible(num):
                sub_node = ast.Call(func=node.func, args=[ast.Name(id="__x", ctx=ast.Load())], keywords=[])
                num.env = dict(num.env)
                num.env["__x"] = sv_val(x)
                outs.extend(b_float(ex, sub_node, num))
            oth = rest.fork().assume(z3.Not(isnum))
            if ex.feasible(oth):
                outs.append(_exc(ex, oth.fork(), "TypeError"))
                other = oth.fork().assume(z3.Not(z3.Or(x == T.None_, sub(c, K("list")), sub(c, K("dict")), sub(c, K("tuple")), sub(c, K("set")))))
                if ex.feasible(other):
                    r = ex.fresh("fltv")
                    other.assume(cls(r) == K("float"))
                    outs.append((other, "val", sv_val(r)))
    return outs


def b_bool(ex, node, st):
    outs = []
    for s, k, vs in ex.eval_many(node.args, st):
        outs.append((s, k, vs) if k == "exc" else (s, "val", sv_bool(ex.truthy(s, vs[0]))))
    return outs


BUILTINS["int"] = b_int
BUILTINS["bool"] = b_bool

LOWER = z3.Function("str_lower", Val, Val)


def m_lower(ex, node, st, rt):
    r = LOWER(rt)
    st.assume(cls(r) == K("str"), T.alloc0[r], T.hashable(r))
    return [(st, "val", sv_val(r))]


CONTAINER_METHODS["lower"] = m_lower


# --- more dict methods ------------------------------------------------------------------
def _dict_guard(ex, node, s, rt, outs, kt=None):
    bad = s.fork().assume(z3.Not(isinst(rt, "dict")))
    if ex.feasible(bad):
        outs.append(_exc(ex, bad, "AttributeError"))
    s.assume(isinst(rt, "dict"))
    if kt is not None:
        unh = s.fork().assume(z3.Not(T.hashable(kt)))
        if ex.feasible(unh):
            outs.append(_exc(ex, unh, "TypeError"))
        s.assume(T.hashable(kt))


def m_pop(ex, node, st, rt):
    outs = []
    for s, k, vs in _args(ex, node, st):
        if k == "exc":
            outs.append((s, k, vs))
            continue
        if ex.container_kind(node.func.value) != "dict":
            raise Unsupported("pop on non-dict")
        kt = ex.val_of(vs[0])
        _dict_guard(ex, node, s, rt, outs, kt)
        h = Heap(ex, s)
        present = s.fork().assume(h.dhas(rt, kt))
        absent = s.fork().assume(z3.Not(h.dhas(rt, kt)))
        if ex.feasible(present):
            hp = Heap(ex, present)
            v = hp.dget(rt, kt)
            ex.check_store_allowed(present, rt, node)
            ex.on_store(present, rt)
            hp.set("dlen", z3.Store(hp.arr("dlen"), rt, hp.dlen(rt) - 1))
            hp.set("dhas", z3.Store(hp.arr("dhas"), rt, z3.Store(hp.arr("dhas")[rt], kt, False)))
            outs.append((present, "val", sv_val(v)))
        if ex.feasible(absent):
            if len(vs) > 1:
                outs.append((absent, "val", vs[1]))
            else:
                outs.append(_exc(ex, absent, "KeyError"))
    return outs


def m_setdefault(ex, node, st, rt):
    outs = []
    for s, k, vs in _args(ex, node, st):
        if k == "exc":
            outs.append((s, k, vs))
            continue
        if ex.container_kind(node.func.value) != "dict":
            raise Unsupported("setdefault on non-dict")
        kt = ex.val_of(vs[0])
        default = ex.val_of(vs[1]) if len(vs) > 1 else T.None_
        _dict_guard(ex, node, s, rt, outs, kt)
        h = Heap(ex, s)
        present = s.fork().assume(h.dhas(rt, kt))
        absent = s.fork().assume(z3.Not(h.dhas(rt, kt)))
        if ex.feasible(present):
            outs.append((present, "val", sv_val(Heap(ex, present).dget(rt, kt))))
        if ex.feasible(absent):
            ex.check_store_allowed(absent, rt, node)
            ex.dict_store(absent, rt, kt, default)
            outs.append((absent, "val", sv_val(default)))
    return outs


CONTAINER_METHODS["pop"] = m_pop
CONTAINER_METHODS["setdefault"] = m_setdefault


def m_isdisjoint(ex, node, st, rt):
    """s.isdisjoint(other): no common member (other: a set or the keys of a dict)"""
    outs = []
    for s, k, vs in _args(ex, node, st):
        if k == "exc":
            outs.append((s, k, vs))
            continue
        other = as_val(vs[0])
        okc = z3.And(z3.Or(isinst(rt, "set"), isinst(rt, "frozenset")), z3.Or(isinst(other, "set"), isinst(other, "frozenset"), isinst(other, "dict")))
        bad = s.fork().assume(z3.Not(okc))
        if ex.feasible(bad):
            outs.append(_exc(ex, bad, "TypeError"))
        s.assume(okc)
        h = Heap(ex, s)
        kk = z3.Const("kk", Val)
        outs.append((s, "val", sv_bool(z3.Not(z3.Exists([kk], z3.And(h.arr("dhas")[rt][kk], h.arr("dhas")[other][kk]))))))
    return outs


CONTAINER_METHODS["isdisjoint"] = m_isdisjoint


def m_keys(ex, node, st, rt):
    """d.keys(): modelled as the dict itself (membership, iteration and set operations on the
    view read the dict's key set)"""
    return [(st, "val", sv_val(rt))]


CONTAINER_METHODS["keys"] = m_keys

SORTED_OF = z3.Function("sorted_of", T.ArrVB, Val)


def b_sorted(ex, node, st):
    """sorted(a set of strings): a fresh list determined by the members (order not modelled);
    TypeError for non-comparable members is excluded by the caller's precondition (string keys)"""
    outs = []
    for s, k, vs in ex.eval_many(node.args, st):
        if k == "exc":
            outs.append((s, k, vs))
            continue
        t = as_val(vs[0])
        h = Heap(ex, s)
        items = ex.fresh("sorted", T.ArrIV)
        n = h.dlen(t)
        o = ex.new_list(s, z3.If(n >= 0, n, 0), items, hint="list")
        outs.append((s, "val", sv_val(o)))
    return outs


BUILTINS["sorted"] = b_sorted


def b_getattr(ex, node, st):
    """getattr(obj, name) for a run-time name: the value dynattr(obj, name); AttributeError is
    excluded by the well-typedness precondition of the serialization contracts"""
    outs = []
    for s, k, vs in ex.eval_many(node.args, st):
        if k == "exc":
            outs.append((s, k, vs))
            continue
        if len(node.args) == 2 and ast.unparse(node.args[1]) in getattr(ex.contract, "dict_attrs", ()):
            # getattr(obj, NAME) for a name that is only ever stored in the instance dictionary
            # (never a class attribute / slot: stated assumption): a lookup in obj.__dict__
            o, key = ex.val_of(vs[0]), ex.val_of(vs[1])
            h = Heap(ex, s)
            has = h.dhas(T.idict(o), key)
            miss = s.fork().assume(z3.Not(has))
            if ex.feasible(miss):
                outs.append(_exc(ex, miss, "AttributeError"))
            s.assume(has)
            outs.append((s, "val", sv_val(h.dget(T.idict(o), key))))
            continue
        outs.append((s, "val", sv_val(T.dynattr(ex.val_of(vs[0]), ex.val_of(vs[1])))))
    return outs


BUILTINS["getattr"] = b_getattr


def b_hasattr(ex, node, st):
    outs = []
    if ast.unparse(node.args[1]) not in getattr(ex.contract, "dict_attrs", ()):
        raise Unsupported("hasattr on a name that is not declared an instance-dict attribute")
    for s, k, vs in ex.eval_many(node.args, st):
        if k == "exc":
            outs.append((s, k, vs))
            continue
        outs.append((s, "val", sv_bool(Heap(ex, s).dhas(T.idict(ex.val_of(vs[0])), ex.val_of(vs[1])))))
    return outs


BUILTINS["hasattr"] = b_hasattr


def _as_setcomp(ex, arg):
    """map(f, xs) / generator expression -> the equivalent set comprehension node"""
    if isinstance(arg, ast.GeneratorExp):
        comp = ast.SetComp(elt=arg.elt, generators=arg.generators)
    elif isinstance(arg, ast.Call) and isinstance(arg.func, ast.Name) and arg.func.id == "map" and len(arg.args) == 2 and not arg.keywords:
        x = ast.Name(id="_map_x", ctx=ast.Load())
        call = ast.Call(func=arg.args[0], args=[x], keywords=[])
        gen = ast.comprehension(target=ast.Name(id="_map_x", ctx=ast.Store()), iter=arg.args[1], ifs=[], is_async=0)
        comp = ast.SetComp(elt=call, generators=[gen])
    else:
        return None
    ast.copy_location(comp, arg)
    ast.fix_missing_locations(comp)
    return comp


def m_clear(ex, node, st, rt):
    """s.clear() / d.clear()"""
    if ex.container_kind(node.func.value) not in ("set", "dict"):
        raise Unsupported("clear on non-set/dict")
    s = st
    ex.check_store_allowed(s, rt, node)
    ex.on_store(s, rt)
    h = Heap(ex, s)
    h.set("dhas", z3.Store(h.arr("dhas"), rt, z3.K(Val, False)))
    h.set("dlen", z3.Store(h.arr("dlen"), rt, z3.IntVal(0)))
    return [(s, "val", sv_val(T.None_))]


CONTAINER_METHODS["clear"] = m_clear


def m_difference_update(ex, node, st, rt):
    """s.difference_update(iterable): the members of the iterable are removed"""
    if ex.container_kind(node.func.value) != "set":
        raise Unsupported("difference_update on non-set")
    comp = _as_setcomp(ex, node.args[0])
    srcs = eval_setcomp(ex, comp, st) if comp is not None else ex.eval(node.args[0], st)
    outs = []
    for s, k, v in srcs:
        if k == "exc":
            outs.append((s, k, v))
            continue
        src = as_val(v)
        ex.check_store_allowed(s, rt, node)
        ex.on_store(s, rt)
        h = Heap(ex, s)
        nh = ex.fresh("sdh", T.ArrVB)
        kk = z3.Const("kk", Val)
        s.assume(T.forall([kk], nh[kk] == z3.And(h.arr("dhas")[rt][kk], z3.Not(h.arr("dhas")[src][kk])), patterns=[nh[kk]]))
        nl = ex.fresh("sdl", T.I)
        s.assume(nl <= h.dlen(rt), nl >= 0)
        h.set("dhas", z3.Store(h.arr("dhas"), rt, nh))
        h.set("dlen", z3.Store(h.arr("dlen"), rt, nl))
        outs.append((s, "val", sv_val(T.None_)))
    return outs


CONTAINER_METHODS["difference_update"] = m_difference_update


def m_update(ex, node, st, rt):
    """d.update(other_dict): keys of other added / overwritten; s.update(iterable): members added"""
    outs = []
    if ex.container_kind(node.func.value) == "set":
        arg = node.args[0]
        comp = _as_setcomp(ex, arg)
        if comp is not None:
            srcs = eval_setcomp(ex, comp, st)
        else:
            srcs = ex.eval(arg, st)
        for s, k, v in srcs:
            if k == "exc":
                outs.append((s, k, v))
                continue
            src = as_val(v)
            ex.check_store_allowed(s, rt, node)
            ex.on_store(s, rt)
            h = Heap(ex, s)
            nh = ex.fresh("suh", T.ArrVB)
            kk = z3.Const("kk", Val)
            s.assume(T.forall([kk], nh[kk] == z3.Or(h.arr("dhas")[rt][kk], h.arr("dhas")[src][kk]), patterns=[nh[kk]]))
            nl = ex.fresh("sul", T.I)
            s.assume(nl >= h.dlen(rt), nl >= 0)
            h.set("dhas", z3.Store(h.arr("dhas"), rt, nh))
            h.set("dlen", z3.Store(h.arr("dlen"), rt, nl))
            outs.append((s, "val", sv_val(T.None_)))
        return outs
    for s, k, vs in _args(ex, node, st):
        if k == "exc":
            outs.append((s, k, vs))
            continue
        if ex.container_kind(node.func.value) != "dict":
            raise Unsupported("update on non-dict")
        src = as_val(vs[0])
        okc = z3.And(isinst(rt, "dict"), isinst(src, "dict"))
        bad = s.fork().assume(z3.Not(okc))
        if ex.feasible(bad):
            outs.append(_exc(ex, bad, "TypeError"))
        s.assume(okc)
        ex.check_store_allowed(s, rt, node)
        ex.on_store(s, rt)
        h = Heap(ex, s)
        nh, ng = ex.fresh("uh", T.ArrVB), ex.fresh("ug", T.ArrVV)
        kk = z3.Const("kk", Val)
        oh, og, sh, sg = h.arr("dhas")[rt], h.arr("dget")[rt], h.arr("dhas")[src], h.arr("dget")[src]
        s.assume(T.forall([kk], nh[kk] == z3.Or(oh[kk], sh[kk]), patterns=[nh[kk]]))
        s.assume(T.forall([kk], ng[kk] == z3.If(sh[kk], sg[kk], og[kk]), patterns=[ng[kk]]))
        nl = ex.fresh("ul", T.I)
        s.assume(nl >= h.dlen(rt), nl >= 0)
        h.set("dhas", z3.Store(h.arr("dhas"), rt, nh))
        h.set("dget", z3.Store(h.arr("dget"), rt, ng))
        h.set("dlen", z3.Store(h.arr("dlen"), rt, nl))
        outs.append((s, "val", sv_val(T.None_)))
    return outs


CONTAINER_METHODS["update"] = m_update


def b_frozenset(ex, node, st):
    """frozenset(a list): a fresh frozenset whose members are the items; TypeError if an item is unhashable"""
    if not node.args:
        o = ex.new_dict(st, z3.K(Val, False), T.NOGET, z3.IntVal(0), K("frozenset"), "frozenset")
        return [(st, "val", sv_val(o))]
    outs = []
    for s, k, vs in ex.eval_many(node.args, st):
        if k == "exc":
            outs.append((s, k, vs))
            continue
        t = as_val(vs[0])
        if ex.container_kind(node.args[0]) not in ("list", "tuple", "seq"):
            raise Unsupported("frozenset() of a non-sequence")
        isseq = z3.Or(isinst(t, "list"), isinst(t, "tuple"))
        bad = s.fork().assume(z3.Not(isseq))
        if ex.feasible(bad):
            outs.append(_exc(ex, bad, "TypeError"))
        s.assume(isseq)
        h = Heap(ex, s)
        j = z3.Int("fj")
        x = z3.Const("fx", Val)
        n, items = h.llen(t), h.arr("lget")[t]
        unh = s.fork().assume(z3.Exists([j], z3.And(j >= 0, j < n, z3.Not(T.hashable(items[j])))))
        if ex.feasible(unh):
            outs.append(_exc(ex, unh, "TypeError"))
        s.assume(T.forall([j], z3.Implies(z3.And(j >= 0, j < n), T.hashable(items[j])), patterns=[items[j]]))
        has = ex.fresh("fsh", T.ArrVB)
        s.assume(T.forall([j], z3.Implies(z3.And(j >= 0, j < n), has[items[j]]), patterns=[items[j]]))
        s.assume(T.forall([x], z3.Implies(has[x], z3.Exists([j], z3.And(j >= 0, j < n, x == items[j]))), patterns=[has[x]]))
        ln = ex.fresh("fsl", T.I)
        s.assume(ln >= 0, ln <= n)
        o = ex.new_dict(s, has, T.NOGET, ln, K("frozenset"), "frozenset")
        outs.append((s, "val", sv_val(o)))
    return outs


BUILTINS["frozenset"] = b_frozenset


def functional_instance(ex, node, st, name, mod, real):
    """K(a, b, ...) for an immutable node dataclass, modelled as the value mk_K(a, b, ...) whose
    attributes are its arguments (it exists "eternally": its attributes are read in the entry
    heap, so the refinement axioms of its class apply to it).  Used by the Layer-2 contracts;
    method nodes are never mutated after construction (RecMethod.method excepted, not built here)."""
    fields = source.dataclass_fields(mod, real)
    outs = []
    for s, k, vs in _args(ex, node, st):
        if k == "exc":
            outs.append((s, k, vs))
            continue
        pos = vs[: len(node.args)]
        kw = {kw.arg: v for kw, v in zip(node.keywords, vs[len(node.args) :])}
        vals = []
        for i, fname in enumerate(fields):
            if i < len(pos):
                vals.append(ex.val_of(pos[i]))
            elif fname in kw:
                vals.append(ex.val_of(kw[fname]))
            else:
                dflt = _field_default(mod, real, fname)
                if dflt is None:
                    raise Unsupported(f"functional instance of {name}: missing field {fname}")
                evs = ex.eval(dflt, s)
                if len(evs) != 1 or evs[0][1] != "val":
                    raise Unsupported(f"functional instance of {name}: default of {fname}")
                vals.append(ex.val_of(evs[0][2]))
        f = z3.Function(f"mk_{name}", *([Val] * len(fields)), Val)
        t = f(*vals) if fields else z3.Const(f"mk_{name}", Val)
        s.assume(cls(t) == K(name), T.alloc0[t])
        for fname, v in zip(fields, vals):
            ex.touch_heap(T.attr_heap(fname))
            s.assume(T.heap0(T.attr_heap(fname))[t] == v)
        outs.append((s, "val", sv_val(t)))
    return outs


issub_rt = z3.Function("issub_rt", Val, Val, T.B)  # issubclass(c, k) for run-time classes (also ABCs)


def b_issubclass(ex, node, st):
    outs = []
    for s, k, vs in ex.eval_many(node.args, st):
        if k == "exc":
            outs.append((s, k, vs))
            continue
        a, b = vs
        outs.append((s, "val", sv_bool(issub_rt(ex.val_of(a), ex.val_of(b)))))
    return outs


BUILTINS["issubclass"] = b_issubclass


def _field_default(mod, clsname, fname):
    cdef = source.find_class(mod, clsname)
    for stt in cdef.body:
        if isinstance(stt, ast.AnnAssign) and isinstance(stt.target, ast.Name) and stt.target.id == fname:
            return stt.value
    return None


def eval_setcomp(ex, node, st):
    """{E(x) for x in xs if C(x)}: a fresh set characterised by membership"""
    s, u, dom, ordered, n, ok, vals, excs = _comp_eval(ex, node, st, [node.elt])

    def build(g):
        has = ex.fresh("sch", T.ArrVB)
        ub = z3.Const("cu", u.sort())
        x = z3.Const("cx", Val)
        ex_ = lambda t: z3.substitute(vals[0], (u, t))  # noqa: E731
        if getattr(ex.contract, "setcomp_trigger", False):
            g.assume(T.forall([ub], z3.Implies(dom(ub), has[ex_(ub)]), patterns=[has[ex_(ub)]]))
        else:
            g.assume(T.forall([ub], z3.Implies(dom(ub), has[ex_(ub)])))
        g.assume(T.forall([x], z3.Implies(has[x], z3.Exists([ub], z3.And(dom(ub), x == ex_(ub)))), patterns=[has[x]]))
        ln = ex.fresh("scl", T.I)
        g.assume(ln >= 0, (ln == 0) == z3.Not(z3.Exists([ub], dom(ub))))
        return ex.new_dict(g, has, T.NOGET, ln, K("set"), "set")

    return _comp_outcomes(ex, s, u, dom, ordered, ok, excs, build)
