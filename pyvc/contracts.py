"""Registry of sidecar contracts (never imported by /repo)."""
from __future__ import annotations

import ast
import importlib
import pkgutil
from typing import Any, Callable, Dict, List, Optional

from . import source


class Registry:
    def __init__(self) -> None:
        self.contracts: Dict[str, Any] = {}
        self.method_models: Dict[str, Callable] = {}
        self.class_models: Dict[str, Callable] = {}
        self.global_models: Dict[str, Callable] = {}
        self.axiom_providers: List[Callable[[], List[Any]]] = []
        self.imports: Dict[str, Dict[str, str]] = {}
        self.uses: Dict[str, List[str]] = {}

    def contract_for(self, target: str):
        return self.contracts.get(target)

    def method_model(self, name: str):
        return self.method_models.get(name)

    def class_model(self, name: str):
        return self.class_models.get(name)

    def spec_axioms(self) -> List[Any]:
        out: List[Any] = []
        for p in self.axiom_providers:
            out.extend(p())
        return out

    def note_use(self, caller: str, callee: str):
        self.uses.setdefault(caller, [])
        if callee not in self.uses[caller]:
            self.uses[caller].append(callee)

    def module_imports(self, module: str) -> Dict[str, str]:
        """name -> 'module:name', from the module's own `from x import y` statements"""
        if module not in self.imports:
            tree, _, _ = source.module_ast(module)
            m: Dict[str, str] = {}
            for node in ast.walk(tree):
                if isinstance(node, ast.ImportFrom) and node.module and node.level == 0:
                    for a in node.names:
                        m[a.asname or a.name] = node.module + ":" + a.name
            self.imports[module] = m
        return self.imports[module]

    def lookup_function(self, module: str, name: str) -> Optional[str]:
        """resolve a bare function name used in `module` to a contract target"""
        cand = f"{module}:{name}"
        if cand in self.contracts:
            return cand
        imp = self.module_imports(module).get(name)
        if imp and imp in self.contracts:
            return imp
        return None

    def global_value(self, module: str, name: str, ex):
        q = f"{module}:{name}"
        if q in self.global_models:
            return self.global_models[q](ex)
        imp = self.module_imports(module).get(name)
        if imp and imp in self.global_models:
            return self.global_models[imp](ex)
        return None


REG = Registry()


def contract(target: str, props=()):
    """class decorator: registers an instance of the sidecar class for `module:qualname`"""

    def deco(c):
        inst = c()
        inst.target = target
        inst.props = tuple(props)
        REG.contracts[target] = inst
        return c

    return deco


def method_model(name: str):
    def deco(f):
        REG.method_models[name] = f
        return f

    return deco


def class_model(name: str):
    def deco(f):
        REG.class_models[name] = f
        return f

    return deco


def global_model(qual: str):
    """qual = 'module:NAME'"""

    def deco(f):
        REG.global_models[qual] = f
        return f

    return deco


def spec_axioms(f):
    REG.axiom_providers.append(f)
    return f


def load_all() -> Registry:
    import contracts as pkg  # /verif/contracts

    for m in sorted(pkgutil.iter_modules(pkg.__path__), key=lambda m: m.name):
        importlib.import_module("contracts." + m.name)
    return REG
