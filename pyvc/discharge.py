"""Discharging obligations: z3 (in-process API) first, cvc5 / old z3 CLI on the SMT-LIB dump."""
from __future__ import annotations

import hashlib
import os
import re
import subprocess
import tempfile
import time
from dataclasses import dataclass
from typing import Any, List, Optional

import z3

from .symexec import Obligation


@dataclass
class Verdict:
    name: str
    status: str  # discharged | sat | unknown
    solver: str
    ms: int
    where: str
    kind: str
    detail: str = ""
    qhash: str = ""
    model: Optional[str] = None


def _smt2(axioms, ob: Obligation) -> str:
    s = z3.Solver()
    for a in axioms:
        s.add(a)
    for f in ob.pc:
        s.add(f)
    s.add(z3.Not(ob.goal))
    txt = s.to_smt2()
    txt = re.sub(r"\(_ ([A-Za-z_][\w!.]*) 0\)", r"\1", txt)
    return "(set-logic ALL)\n" + txt


def _run_cli(cmd: List[str], txt: str, timeout_s: int):
    with tempfile.NamedTemporaryFile("w", suffix=".smt2", delete=False, dir=os.environ.get("TMPDIR", "/tmp")) as f:
        f.write(txt)
        path = f.name
    try:
        t0 = time.time()
        try:
            r = subprocess.run(cmd + [path], capture_output=True, text=True, timeout=timeout_s + 5)
            out = (r.stdout or "").strip().splitlines()
            res = out[0].strip() if out else "unknown"
        except subprocess.TimeoutExpired:
            res = "unknown"
        return res, int((time.time() - t0) * 1000)
    finally:
        os.unlink(path)


def discharge(axioms, ob: Obligation, tier: str = "quick", budget_ms: int = 10000) -> Verdict:
    t0 = time.time()
    if ob.kind == "vacuity":
        # must-fail obligation: an `unsat` here means the hypotheses are inconsistent and every
        # other obligation of the function would be vacuously discharged
        s = z3.Solver()
        s.set("timeout", 1500)
        s.set("smt.mbqi", False)
        for a in axioms:
            s.add(a)
        for f in ob.pc:
            s.add(f)
        r = s.check()
        ms = int((time.time() - t0) * 1000)
        if r == z3.unsat:
            return Verdict(ob.name, "unknown", "z3-5.1", ms, ob.where, ob.kind, "hypotheses are contradictory: `False` was proved")
        return Verdict(ob.name, "discharged", "z3-5.1", ms, ob.where, ob.kind, f"not refutable ({r}), as required")
    r = None
    # e-matching only; then with MBQI; then e-matching again with another seed and twice the
    # budget (quantifier instantiation order is seed dependent: a proof found in 7 s with one
    # seed can need 15 s with another)
    for mbqi, seed, factor in ((False, 0, 1), (True, 0, 1), (False, 7, 2)):
        s = z3.Solver()
        s.set("timeout", budget_ms * factor)
        if seed:
            s.set("random_seed", seed)
            s.set("smt.random_seed", seed)
        if not mbqi:
            s.set("smt.mbqi", False)
        for a in axioms:
            s.add(a)
        for f in ob.pc:
            s.add(f)
        s.add(z3.Not(ob.goal))
        r = s.check()
        if r != z3.unknown:
            break
    ms = int((time.time() - t0) * 1000)
    txt = None
    qhash = ""
    if r == z3.unsat:
        v = Verdict(ob.name, "discharged", "z3-5.1", ms, ob.where, ob.kind)
        if tier != "thorough":
            return v
        # thorough: cross-validate with a second solver; disagreement is reported by the caller
        txt = _smt2(axioms, ob)
        v.qhash = hashlib.sha256(txt.encode()).hexdigest()[:16]
        # second opinion with a short limit: only a definite `sat` (disagreement) matters
        res, ms2 = _run_cli(["/usr/bin/cvc5", "--tlimit=4000"], txt, 6)
        if res == "sat":
            v.status, v.detail = "unknown", "z3 unsat but cvc5 sat: solver disagreement"
        else:
            v.detail = f"cvc5:{res}:{ms2}ms"
        return v
    first = str(r)
    model = None
    if r == z3.sat:
        try:
            model = str(s.model())[:4000]
        except Exception:
            model = None
        return Verdict(ob.name, "sat", "z3-5.1", ms, ob.where, ob.kind, "", "", model)
    # unknown: other solvers on the dump
    txt = _smt2(axioms, ob)
    qhash = hashlib.sha256(txt.encode()).hexdigest()[:16]
    res, ms2 = _run_cli(["/usr/bin/cvc5", "--tlimit=%d" % (budget_ms * 2)], txt, budget_ms * 2 // 1000 + 1)
    if res == "unsat":
        return Verdict(ob.name, "discharged", "cvc5-1.0.3", ms + ms2, ob.where, ob.kind, f"z3:{first}", qhash)
    res3, ms3 = _run_cli(["/usr/bin/z3", "-T:%d" % (budget_ms // 1000 + 1)], txt, budget_ms // 1000 + 2)
    if res3 == "unsat":
        return Verdict(ob.name, "discharged", "z3-4.8.12", ms + ms2 + ms3, ob.where, ob.kind, f"z3-5.1:{first} cvc5:{res}", qhash)
    status = "sat" if "sat" in (res, res3) and res != "unsat" and res3 != "unsat" and (res == "sat" or res3 == "sat") else "unknown"
    return Verdict(ob.name, status, "z3-5.1+cvc5+z3-4.8", ms + ms2 + ms3, ob.where, ob.kind, f"z3-5.1:{first} cvc5:{res} z3-4.8:{res3}", qhash)
