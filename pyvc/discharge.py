"""Discharging obligations: z3 (in-process API) first, cvc5 / old z3 CLI on the SMT-LIB dump."""
from __future__ import annotations

import hashlib
import os
import re
import subprocess
import tempfile
import time
from dataclasses import dataclass
from typing import Any, List, Optional

import z3

from .symexec import Obligation


@dataclass
class Verdict:
    name: str
    status: str  # discharged | sat | unknown
    solver: str
    ms: int
    where: str
    kind: str
    detail: str = ""
    qhash: str = ""
    model: Optional[str] = None


def _smt2(axioms, ob: Obligation) -> str:
    s = z3.Solver()
    for a in axioms:
        s.add(a)
    for f in ob.pc:
        s.add(f)
    s.add(z3.Not(ob.goal))
    txt = s.to_smt2()
    txt = re.sub(r"\(_ ([A-Za-z_][\w!.]*) 0\)", r"\1", txt)
    return "(set-logic ALL)\n" + txt


def _run_cli(cmd: List[str], txt: str, timeout_s: int):
    with tempfile.NamedTemporaryFile("w", suffix=".smt2", delete=False, dir=os.environ.get("TMPDIR", "/tmp")) as f:
        f.write(txt)
        path = f.name
    try:
        t0 = time.time()
        try:
            r = subprocess.run(cmd + [path], capture_output=True, text=True, timeout=timeout_s + 5)
            out = (r.stdout or "").strip().splitlines()
            res = out[0].strip() if out else "unknown"
        except subprocess.TimeoutExpired:
            res = "unknown"
        return res, int((time.time() - t0) * 1000)
    finally:
        os.unlink(path)


def discharge(axioms, ob: Obligation, tier: str = "quick", budget_ms: int = 10000) -> Verdict:
    t0 = time.time()
    if ob.kind == "vacuity":
        # must-fail obligation: an `unsat` here means the hypotheses are inconsistent and every
        # other obligation of the function would be vacuously discharged
        s = z3.Solver()
        s.set("timeout", 1500)
        s.set("smt.mbqi", False)
        for a in axioms:
            s.add(a)
        for f in ob.pc:
            s.add(f)
        r = s.check()
        ms = int((time.time() - t0) * 1000)
        if r == z3.unsat:
            return Verdict(ob.name, "unknown", "z3-5.1", ms, ob.where, ob.kind, "hypotheses are contradictory: `False` was proved")
        return Verdict(ob.name, "discharged", "z3-5.1", ms, ob.where, ob.kind, f"not refutable ({r}), as required")
    # Stage budgets are z3 resource limits (rlimit, about 2000 units per millisecond on this machine
    # for e-matching queries) capped by a wall-clock timeout (3 x the nominal time for the first stage, whose
    # failures on the cardinality obligations must be cheap, 4 x for the later ones): the verdict of a
    # stage does not depend on the load unless the machine is oversubscribed more than that.  Order: z3 e-matching
    # (seed 0); cvc5 on the SMT-LIB dump (the finite-set cardinality obligations are only ever decided
    # by cvc5); z3 e-matching with another seed (instantiation order is seed dependent and the running
    # time heavy-tailed: restarts beat one long run); z3 with MBQI; a third seed with twice the budget;
    # z3 4.8.12.  `unsat` from any of them discharges; `sat` is only believed from the first z3 run.
    trail = []
    state = {"txt": None, "qhash": ""}

    def z3_stage(mbqi, seed, factor, cap=4):
        s = z3.Solver()
        s.set("rlimit", int(budget_ms * 2000 * factor))
        s.set("timeout", int(budget_ms * cap * factor))
        if seed:
            s.set("random_seed", seed)
            s.set("smt.random_seed", seed)
        if not mbqi:
            s.set("smt.mbqi", False)
        for a in axioms:
            s.add(a)
        for f in ob.pc:
            s.add(f)
        s.add(z3.Not(ob.goal))
        r = s.check()
        trail.append(f"z3-5.1[{'mbqi' if mbqi else 'ematch'},seed={seed},x{factor}]:{r}")
        return r, s

    def dump():
        if state["txt"] is None:
            state["txt"] = _smt2(axioms, ob)
            state["qhash"] = hashlib.sha256(state["txt"].encode()).hexdigest()[:16]
        return state["txt"]

    def elapsed():
        return int((time.time() - t0) * 1000)

    r, s = z3_stage(False, 0, 1, cap=3)
    if r == z3.unsat:
        v = Verdict(ob.name, "discharged", "z3-5.1", elapsed(), ob.where, ob.kind)
        if tier != "thorough":
            return v
        # thorough: second opinion with a short limit: only a definite `sat` (disagreement) matters
        res, ms2 = _run_cli(["/usr/bin/cvc5", "--tlimit=4000"], dump(), 6)
        v.qhash = state["qhash"]
        if res == "sat":
            v.status, v.detail = "unknown", "z3 unsat but cvc5 sat: solver disagreement"
        else:
            v.detail = f"cvc5:{res}:{ms2}ms"
        return v
    if r == z3.sat:
        try:
            model = str(s.model())[:4000]
        except Exception:
            model = None
        return Verdict(ob.name, "sat", "z3-5.1", elapsed(), ob.where, ob.kind, "", "", model)
    res, _ = _run_cli(["/usr/bin/cvc5", "--tlimit=%d" % budget_ms], dump(), budget_ms // 1000 + 2)
    trail.append(f"cvc5:{res}")
    if res == "unsat":
        return Verdict(ob.name, "discharged", "cvc5-1.0.3", elapsed(), ob.where, ob.kind, " ".join(trail), state["qhash"])
    for mbqi, seed, factor in ((False, 7, 1), (True, 0, 1), (False, 13, 2)):
        r, s = z3_stage(mbqi, seed, factor)
        if r == z3.unsat:
            return Verdict(ob.name, "discharged", "z3-5.1", elapsed(), ob.where, ob.kind, " ".join(trail), state["qhash"])
    res3, _ = _run_cli(["/usr/bin/z3", "-T:%d" % (budget_ms // 1000 + 1)], dump(), budget_ms // 1000 + 2)
    trail.append(f"z3-4.8:{res3}")
    if res3 == "unsat":
        return Verdict(ob.name, "discharged", "z3-4.8.12", elapsed(), ob.where, ob.kind, " ".join(trail), state["qhash"])
    status = "sat" if res == "sat" or res3 == "sat" else "unknown"
    return Verdict(ob.name, status, "z3-5.1+cvc5+z3-4.8", elapsed(), ob.where, ob.kind, " ".join(trail), state["qhash"])
