"""Verify one contract: symbolic execution + discharge of every obligation."""
from __future__ import annotations

import sys
import time
import traceback
from dataclasses import asdict, dataclass, field
from typing import Any, Dict, List

from . import source
from .contracts import REG, load_all
from .discharge import Verdict, discharge
from .symexec import Executor, SidecarError, Unsupported


@dataclass
class FunctionReport:
    target: str
    props: List[str]
    path: str = ""
    lineno: int = 0
    sha256: str = ""
    status: str = "ok"  # ok | tool-error | assumed
    error: str = ""
    verdicts: List[Verdict] = field(default_factory=list)
    solver_ms: int = 0
    wall_ms: int = 0
    paths: int = 0
    symexec_ms: int = 0
    assumed_calls: List[str] = field(default_factory=list)
    callees: List[str] = field(default_factory=list)


_PAR = {}


MAX_FAILED_PER_WORKER = int(__import__("os").environ.get("PYVC_MAX_FAILED", "3"))  # once a function has that many undischarged obligations the rest is not attempted


_CONSTS_CACHE: Dict[int, frozenset] = {}


def _class_consts(term) -> frozenset:
    """names of the class constants C_<Name> occurring in a term (memoised on AST ids)"""
    import z3

    tid = term.get_id()
    if tid in _CONSTS_CACHE:
        return _CONSTS_CACHE[tid]
    out = set()
    seen = set()
    stack = [term]
    while stack:
        t = stack.pop()
        i = t.get_id()
        if i in seen:
            continue
        seen.add(i)
        if i in _CONSTS_CACHE:
            out |= _CONSTS_CACHE[i]
            continue
        if z3.is_quantifier(t):
            stack.append(t.body())
        elif z3.is_app(t):
            if t.num_args() == 0:
                n = t.decl().name()
                if n.startswith("C_"):
                    out.add(n)
            else:
                stack.extend(t.children())
    res = frozenset(out)
    _CONSTS_CACHE[tid] = res
    return res


def _relevant_axioms(axioms, ob, tags):
    """drop the refinement axioms of node classes the obligation does not mention"""
    if not tags:
        return axioms
    mentioned = set()
    for f in ob.pc:
        mentioned |= _class_consts(f)
    mentioned |= _class_consts(ob.goal)
    return [a for a in axioms if a.get_id() not in tags or tags[a.get_id()] in mentioned]


def _discharge_seq(axioms, items, tier, budget_ms):
    """items: [(index, obligation)]; after MAX_FAILED_PER_WORKER failures the remaining obligations
    are reported `skipped` (never counted as discharged): one failed obligation is enough to report the
    function, and a changed function otherwise costs (number of obligations x full solver budget)"""
    out, failed = [], 0
    for idx, ob in items:
        if failed >= MAX_FAILED_PER_WORKER and ob.kind != "vacuity":
            out.append((idx, Verdict(ob.name, "skipped", "-", 0, ob.where, ob.kind, detail=f"not attempted: {failed} obligations of this function already failed")))
            continue
        v = discharge(_relevant_axioms(axioms, ob, _PAR.get("tags")), ob, tier, budget_ms)
        if v.status != "discharged" and ob.kind != "vacuity":
            failed += 1
        out.append((idx, v))
    return out


def _solve_slice(k):
    axioms, obs, tier, budget_ms, n = _PAR["args"]
    return _discharge_seq(axioms, [(idx, ob) for idx, ob in enumerate(obs) if idx % n == k], tier, budget_ms)


def _parallel_discharge(axioms, obs, tier, budget_ms, n):
    import multiprocessing as mp

    _PAR["args"] = (axioms, obs, tier, budget_ms, n)
    ctx = mp.get_context("fork")
    with ctx.Pool(n) as pool:
        parts = pool.map(_solve_slice, range(n))
    res = sorted((x for part in parts for x in part), key=lambda x: x[0])
    return [v for _, v in res]


def verify(target: str, tier: str = "quick", budget_ms: int = 10000, shard=(0, 1)) -> FunctionReport:
    reg = load_all()
    # determinism: the class axioms a proof sees must not depend on which functions this process
    # verified before (worker processes are reused): restart from the classes named at import time
    from . import theory as _T

    cl = _T.classes()
    if not hasattr(cl, "base_used"):
        cl.base_used = set(cl.used)
    cl.used = set(cl.base_used)
    cl.version += 1
    c = reg.contract_for(target)
    rep = FunctionReport(target, list(getattr(c, "props", [])))
    t0 = time.time()
    try:
        fs = source.find_function(target)
        rep.path, rep.lineno, rep.sha256 = fs.path, fs.lineno, fs.sha256
        if getattr(c, "inline", False) or getattr(c, "assumed", False):
            rep.status = "assumed" if getattr(c, "assumed", False) else "inline"
            return rep
        ex = Executor(c, reg)
        obs = ex.run()
        axioms = ex.axioms()
        _PAR["tags"] = dict(getattr(ex, "class_axiom_of", {}) or {})
        budget_ms = int(budget_ms * float(getattr(c, "budget_factor", 1)))
        t_sym = time.time()
        rep.symexec_ms = int((t_sym - t0) * 1000)
        n_par = int(getattr(c, "shards", 1))
        if n_par > 1 and len(obs) > 8:
            # the obligations of one function are discharged by forked workers (the z3 terms
            # built by the symbolic execution are inherited through fork, nothing is re-executed)
            verdicts = _parallel_discharge(axioms, obs, tier, budget_ms, n_par)
        else:
            verdicts = [v for _, v in _discharge_seq(axioms, list(enumerate(obs)), tier, budget_ms)]
        for v in verdicts:
            rep.verdicts.append(v)
            rep.solver_ms += v.ms
        rep.paths = ex.paths
        rep.assumed_calls = sorted(set(ex.assumed_calls))
        rep.callees = reg.uses.get(target, [])
    except (Unsupported, SidecarError, source.SourceError) as e:
        rep.status = "tool-error"
        rep.error = f"{type(e).__name__}: {e}"
    except Exception as e:  # engine crash: never a violation
        rep.status = "tool-error"
        rep.error = "engine crash: " + "".join(traceback.format_exception_only(type(e), e)).strip() + "\n" + traceback.format_exc()[-1500:]
    rep.wall_ms = int((time.time() - t0) * 1000)
    return rep


if __name__ == "__main__":
    sys.path.insert(0, __import__("os").path.dirname(__import__("os").path.dirname(__import__("os").path.abspath(__file__))))
    rep = verify(sys.argv[1], budget_ms=int(__import__("os").environ.get("PYVC_BUDGET_MS", "10000")))
    print(rep.status, rep.error)
    from collections import Counter
    print(Counter(v.status for v in rep.verdicts))
    for v in rep.verdicts:
        if v.status == "discharged" and "-v" not in sys.argv:
            continue
        print(f"  [{v.status:10}] {v.ms:6}ms {v.solver:12} {v.kind:14} {v.name}  {v.where.split('/')[-1]} {v.detail}")
    print(f"paths={rep.paths} solver_ms={rep.solver_ms} wall_ms={rep.wall_ms}")
