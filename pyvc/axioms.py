"""Per-class refinement axioms (DESIGN.md 2.6): once the exported clauses of K.deserialize are
discharged in this run, the fact  forall m d. requires_K(m) => clause[returned := acc(m,d),
result := img(m,d), exc := err(m,d)]  becomes available to the Layer-2 proofs that construct or
inspect a K.  Only clauses listed in the contract's `exports` (heap-independent: they mention
the entry heap and acc / img / err only) are exported; a class whose proof failed exports
nothing."""
from __future__ import annotations

from typing import Any, Dict, List

import z3

from . import theory as T
from .symexec import SpecCtx, State
from .theory import Val


class _DummyEx:
    def __init__(self):
        self.heap_names: List[str] = []

    def touch_heap(self, name):
        if name not in self.heap_names:
            self.heap_names.append(name)

    def truthy(self, st, v):
        raise NotImplementedError


class AxiomCtx(SpecCtx):
    def __init__(self, m, d, mode: str):
        super().__init__(_DummyEx(), State({}, {}, []), {"self": m, "data": d})
        self.returned = T.acc(m, d)
        self.raised = z3.Not(T.acc(m, d))
        self.is_return = mode == "return"
        self.is_raise = mode == "raise"
        self.result = T.img(m, d)
        self.exc = T.err(m, d)

    # every observer reads the entry heap
    def attr(self, o, name):
        return self.attr0(o, name)

    def llen(self, o):
        return self.llen0(o)

    def lget(self, o, i):
        return self.lget0(o, i)

    def dhas(self, o, k):
        return self.dhas0(o, k)

    def dget(self, o, k):
        return self.dget0(o, k)

    def dlen(self, o):
        return self.dlen0(o)

    def arr(self, name, o):
        return self.arr0(name, o)


def class_axiom(contract) -> List[Any]:
    exports = list(getattr(contract, "exports", []))
    if not exports:
        return []
    m, d = z3.Consts("ax_m ax_d", Val)
    out = []
    base = contract.ensures(AxiomCtx(m, d, "none"))
    ret = contract.ensures(AxiomCtx(m, d, "return"))
    rai = contract.ensures(AxiomCtx(m, d, "raise"))
    req = z3.And(*contract.requires(AxiomCtx(m, d, "none")))
    clauses = []
    for name in exports:
        if name in base:
            clauses.append(base[name])
        elif name in ret:
            clauses.append(z3.Implies(T.acc(m, d), ret[name]))
        elif name in rai:
            clauses.append(z3.Implies(z3.Not(T.acc(m, d)), rai[name]))
        else:
            raise KeyError(f"exported clause `{name}` is not a clause of {contract.target}")
    body = z3.Implies(req, z3.And(*clauses))
    out.append(z3.ForAll([m, d], body, patterns=[T.acc(m, d)]))
    out.append(z3.ForAll([m, d], body, patterns=[T.img(m, d)]))
    return out


def exported_names(contract) -> List[str]:
    return list(getattr(contract, "exports", []))
