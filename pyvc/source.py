"""Locating the real functions: parse the repository working tree at every run."""
from __future__ import annotations

import ast
import hashlib
import os
from dataclasses import dataclass
from functools import lru_cache
from typing import Dict, List, Optional, Tuple


def repo_root() -> str:
    return os.environ.get("VERIF_REPO", "/repo")


class SourceError(Exception):
    """A function / class named by a sidecar cannot be found (tool error, exit 3)."""


@lru_cache(maxsize=None)
def module_ast(module: str) -> Tuple[ast.Module, str, str]:
    rel = module.replace(".", "/")
    for cand in (rel + ".py", rel + "/__init__.py"):
        path = os.path.join(repo_root(), cand)
        if os.path.isfile(path):
            with open(path) as f:
                text = f.read()
            return ast.parse(text), path, text
    raise SourceError(f"module {module} not found under {repo_root()}")


@dataclass
class FunctionSource:
    qualname: str  # module:Class.method or module:func.<locals>.inner
    module: str
    node: ast.FunctionDef
    cls: Optional[ast.ClassDef]
    path: str
    lineno: int
    sha256: str
    text: str


def _find(body: List[ast.stmt], parts: List[str], cls: Optional[ast.ClassDef]):
    name = parts[0]
    if name == "<locals>":
        return _find(body, parts[1:], cls)
    for node in _iter_defs(body):
        if isinstance(node, (ast.FunctionDef, ast.ClassDef)) and node.name == name:
            if len(parts) == 1:
                return node, cls
            return _find(
                node.body, parts[1:], node if isinstance(node, ast.ClassDef) else cls
            )
    return None, None


def _iter_defs(body):
    """definitions in a body, looking through if / try / with / for at the same level"""
    for node in body:
        if isinstance(node, (ast.FunctionDef, ast.ClassDef)):
            yield node
        elif isinstance(node, (ast.If, ast.Try, ast.With, ast.For, ast.While)):
            for fld in ("body", "orelse", "finalbody"):
                yield from _iter_defs(getattr(node, fld, []) or [])
            for h in getattr(node, "handlers", []) or []:
                yield from _iter_defs(h.body)


def find_function(qualname: str) -> FunctionSource:
    # "module:Class.method#variant": several contracts (case splits on the node's configuration)
    # may cover one function
    qualname = qualname.split("#")[0]
    module, _, path = qualname.partition(":")
    tree, file, text = module_ast(module)
    node, cls = _find(tree.body, path.split("."), None)
    if node is None or not isinstance(node, ast.FunctionDef):
        raise SourceError(f"function {qualname} not found in {file}")
    seg = ast.get_source_segment(text, node) or ""
    return FunctionSource(
        qualname,
        module,
        node,
        cls,
        file,
        node.lineno,
        hashlib.sha256(seg.encode()).hexdigest(),
        seg,
    )


def find_class(module: str, name: str) -> ast.ClassDef:
    tree, file, _ = module_ast(module)
    node, _ = _find(tree.body, name.split("."), None)
    if node is None or not isinstance(node, ast.ClassDef):
        raise SourceError(f"class {module}:{name} not found in {file}")
    return node


def module_constant(module: str, name: str) -> ast.expr:
    """the expression a module-level name is assigned (last assignment wins)"""
    tree, file, _ = module_ast(module)
    found = None
    for node in tree.body:
        if isinstance(node, ast.Assign):
            for tgt in node.targets:
                if isinstance(tgt, ast.Name) and tgt.id == name:
                    found = node.value
        elif isinstance(node, ast.AnnAssign) and node.value is not None:
            if isinstance(node.target, ast.Name) and node.target.id == name:
                found = node.value
    if found is None:
        raise SourceError(f"module constant {module}.{name} not found in {file}")
    return found


def class_bases(module: str) -> Dict[str, List[str]]:
    """class name -> base names, for every class statement of a module (any depth 1)"""
    tree, _, _ = module_ast(module)
    out: Dict[str, List[str]] = {}
    for node in _iter_defs(tree.body):
        if isinstance(node, ast.ClassDef):
            bases = []
            for b in node.bases:
                if isinstance(b, ast.Name):
                    bases.append(b.id)
                elif isinstance(b, ast.Attribute):
                    bases.append(b.attr)
                elif isinstance(b, ast.Subscript) and isinstance(b.value, ast.Name):
                    bases.append(b.value.id)
            out[node.name] = bases
    return out


def dataclass_fields(module: str, clsname: str) -> List[str]:
    """declared (annotated) fields of a class and its bases defined in the same module, in order"""
    bases = class_bases(module)
    order: List[str] = []

    def rec(name: str):
        for b in bases.get(name, []):
            if b in bases:
                rec(b)
        node = find_class(module, name)
        for st in node.body:
            if isinstance(st, ast.AnnAssign) and isinstance(st.target, ast.Name):
                if st.target.id not in order:
                    order.append(st.target.id)

    rec(clsname)
    return order
