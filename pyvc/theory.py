"""The logical universe of pyvc: one uninterpreted sort Val with observers, heap arrays,
class order, abstract children.  DESIGN.md section 2.3 (as amended: dict keys are compared
by identity of canonical values; cross-class numeric equality True == 1 == 1.0 is not
modelled at the P level and is left to the native drivers)."""
from __future__ import annotations

import builtins
import itertools
from typing import Dict, Iterable, List, Optional, Sequence, Tuple

import z3

from . import source

Val = z3.DeclareSort("Val")
I = z3.IntSort()
B = z3.BoolSort()

ArrIV = z3.ArraySort(I, Val)
ArrVI = z3.ArraySort(Val, I)
ArrVB = z3.ArraySort(Val, B)
ArrVV = z3.ArraySort(Val, Val)
ArrV_IV = z3.ArraySort(Val, ArrIV)
ArrV_VB = z3.ArraySort(Val, ArrVB)
ArrV_VV = z3.ArraySort(Val, ArrVV)

def forall(vs, body, patterns=None):
    """ForAll with explicit triggers when they are legal patterns (uninterpreted applications,
    selects, linear terms over the bound variables), else with solver-inferred triggers"""
    if patterns and _pattern_ok(patterns):
        try:
            return z3.ForAll(vs, body, patterns=patterns)
        except z3.Z3Exception:  # a multi-pattern over terms that are not legal triggers
            pass
    return z3.ForAll(vs, body)


_OK_KINDS = None


def _pattern_ok(patterns) -> bool:
    global _OK_KINDS
    if _OK_KINDS is None:
        _OK_KINDS = {z3.Z3_OP_UNINTERPRETED, z3.Z3_OP_SELECT, z3.Z3_OP_ANUM, z3.Z3_OP_ADD, z3.Z3_OP_SUB, z3.Z3_OP_RECURSIVE}

    def ok(t) -> bool:
        if z3.is_var(t):
            return True
        if z3.is_quantifier(t):
            return False
        if z3.is_app(t):
            if t.decl().kind() not in _OK_KINDS:
                return False
            return all(ok(c) for c in t.children())
        return False

    for p in patterns:
        if isinstance(p, z3.PatternRef):
            continue
        if not ok(p):
            return False
    return True


cls = z3.Function("cls", Val, Val)
sub = z3.Function("sub", Val, Val, B)
ival = z3.Function("ival", Val, I)
mkint = z3.Function("mkint", I, Val)
py_eq = z3.Function("py_eq", Val, Val, B)  # a == b
dynattr = z3.Function("dynattr", Val, Val, Val)  # getattr(obj, name) for a run-time name
inst_rt = z3.Function("inst_rt", Val, Val, B)  # isinstance(v, c) for a run-time class or tuple of classes
slen = z3.Function("slen", Val, I)
truthy_other = z3.Function("truthy_other", Val, B)
hashable = z3.Function("hashable", Val, B)
idict = z3.Function("idict", Val, Val)  # obj.__dict__ : the instance dictionary (a dict object owned by obj)
idict_owner = z3.Function("idict_owner", Val, Val)

None_ = z3.Const("None_", Val)
True_ = z3.Const("True_", Val)
False_ = z3.Const("False_", Val)
Ellipsis_ = z3.Const("Ellipsis_", Val)

# abstract children (DESIGN 2.6)
acc = z3.Function("acc", Val, Val, B)  # DeserializationMethod m accepts datum d
img = z3.Function("img", Val, Val, Val)  # ... and returns img(m, d)
err = z3.Function("err", Val, Val, Val)  # ... or raises err(m, d) (a ValidationError)
holds = z3.Function("holds", Val, Val, B)  # Constraint c holds of datum d
# user callables: pure, total functions of their arguments
apply1 = z3.Function("apply1", Val, Val, Val)
apply2 = z3.Function("apply2", Val, Val, Val, Val)
apply0 = z3.Function("apply0", Val, Val)

# arbitrary contents used for the unobservable part of fresh containers (indices >= len,
# values of absent keys); constants rather than K(...) so that every solver accepts the dump
EMPTY_ITEMS = z3.Const("EMPTY_ITEMS", ArrIV)
NOGET = z3.Const("NOGET", ArrVV)

# finite-set cardinality (sets as characteristic arrays); axioms in card_axioms()
card = z3.Function("card", ArrVB, I)


def card_axioms():
    S = z3.Const("S", ArrVB)
    x = z3.Const("x", Val)
    return [
        card(z3.K(Val, False)) == 0,
        z3.ForAll([S], card(S) >= 0, patterns=[card(S)]),
        z3.ForAll([S, x], z3.Implies(z3.Not(S[x]), card(z3.Store(S, x, True)) == card(S) + 1), patterns=[card(z3.Store(S, x, True))]),
    ]


def card_subset_eq(S, Tt):
    """instance of: S subset of T, card S = card T (finite)  =>  T subset of S"""
    x = z3.Const("x", Val)
    return z3.Implies(z3.And(z3.ForAll([x], z3.Implies(S[x], Tt[x])), card(S) == card(Tt)), z3.ForAll([x], z3.Implies(Tt[x], S[x])))


# entry heap (the heap when the verified function is entered)
alloc0 = z3.Const("alloc0", ArrVB)

HEAP_SORTS = {
    "llen": ArrVI,  # list / tuple length
    "lget": ArrV_IV,  # list / tuple items
    "dhas": ArrV_VB,  # dict / set membership
    "dget": ArrV_VV,  # dict values
    "dlen": ArrVI,  # dict / set size
    "alloc": ArrVB,
}


def attr_heap(name: str) -> str:
    return "a:" + name


def heap_sort(name: str):
    if name.startswith("g:"):
        return ArrVB  # ghost sets
    if name.startswith("gi:"):
        return z3.ArraySort(Val, I)  # ghost integer maps
    if name.startswith("a:"):
        return ArrVV
    return HEAP_SORTS[name]


def heap0(name: str):
    """the entry version of a heap array"""
    if name == "alloc":
        return alloc0
    return z3.Const(name.replace(":", "_") + "0", heap_sort(name))


# ---------------------------------------------------------------------------
# classes

_BUILTIN = {
    "object": object,
    "NoneType": type(None),
    "bool": bool,
    "int": int,
    "float": float,
    "str": str,
    "bytes": bytes,
    "list": list,
    "dict": dict,
    "tuple": tuple,
    "set": set,
    "frozenset": frozenset,
    "type": type,
    "Exception": Exception,
    "BaseException": BaseException,
    "KeyError": KeyError,
    "IndexError": IndexError,
    "LookupError": LookupError,
    "TypeError": TypeError,
    "ValueError": ValueError,
    "OverflowError": OverflowError,
    "ArithmeticError": ArithmeticError,
    "ZeroDivisionError": ZeroDivisionError,
    "AttributeError": AttributeError,
    "AssertionError": AssertionError,
    "NotImplementedError": NotImplementedError,
    "RuntimeError": RuntimeError,
    "RecursionError": RecursionError,
    "StopIteration": StopIteration,
    "Field": __import__("dataclasses").Field,
    "property": property,
    "FunctionType": __import__("types").FunctionType,
}

# repository classes the contracts mention: name -> (module, bases resolved from the AST)
_REPO_CLASS_MODULES = [
    "apischema.deserialization.methods",
    "apischema.deserialization",
    "apischema.serialization.methods",
    "apischema.validation.errors",
    "apischema.validation.validators",
    "apischema.validation.mock",
    "apischema.cache",
    "apischema.settings",
    "apischema.types",
    "apischema.objects.fields",
    "apischema.fields",
    "apischema.ordering",
    "apischema.conversions.conversions",
    "apischema.conversions.converters",
    "apischema.serialization.errors",
    "apischema.json_schema.types",
]

# classes of these modules whose name is already taken get a prefix
_PREFIX = {"apischema.serialization.methods": "Ser"}

# layout-incompatible builtin bases: no class derives from two of them
_DISJOINT = ["NoneType", "int", "float", "str", "bytes", "list", "dict", "tuple", "set", "frozenset", "BaseException", "type"]
_FINAL = ["NoneType", "bool"]


class Classes:
    """named class constants, with the subclass facts among them computed from the real
    MRO (builtins: issubclass on the real classes; repository classes: `class` statements
    of the working tree)."""

    def __init__(self) -> None:
        self.consts: Dict[str, z3.ExprRef] = {}
        self.supers: Dict[str, List[str]] = {}
        self.used = set()
        self.version = 0
        for name, c in _BUILTIN.items():
            self.consts[name] = z3.Const("C_" + name, Val)
            self.supers[name] = [n for n, c2 in _BUILTIN.items() if issubclass(c, c2)]
        self.repo_module: Dict[str, str] = {}
        self.real_name: Dict[str, str] = {}
        for mod in _REPO_CLASS_MODULES:
            try:
                bases = source.class_bases(mod)
            except source.SourceError:
                continue
            for cname in bases:
                key = cname
                if cname in self.consts:
                    if cname in _BUILTIN or mod not in _PREFIX:
                        continue
                    key = _PREFIX[mod] + cname  # same class name in another module
                self.repo_module[key] = mod
                self.real_name[key] = cname
                self.consts[key] = z3.Const("C_" + key, Val)
        # resolve supers of repo classes transitively through names we know
        all_bases: Dict[str, List[str]] = {}
        for key, mod in self.repo_module.items():
            bs = source.class_bases(mod)[self.real_name[key]]
            all_bases[key] = [self.local(b, mod) for b in bs]
        for cname in self.repo_module:
            seen: List[str] = []

            def rec(n: str):
                if n in seen:
                    return
                seen.append(n)
                if n in all_bases:
                    for b in all_bases[n]:
                        if b == "Enum":
                            continue
                        rec(b)
                    if not all_bases[n]:
                        rec("object")
                elif n in _BUILTIN:
                    for s in self.supers[n]:
                        rec(s)
                # unknown base (typing generics, Protocols...): ignored

            rec(cname)
            if "object" not in seen:
                seen.append("object")
            self.supers[cname] = [s for s in seen if s in self.consts]

    def local(self, name: str, module: str) -> str:
        """the theory name of class `name` as seen from `module`"""
        pre = _PREFIX.get(module)
        if pre and (pre + name) in self.consts and self.repo_module.get(pre + name) == module:
            return pre + name
        return name

    def __getitem__(self, name: str) -> z3.ExprRef:
        try:
            c = self.consts[name]
        except KeyError:
            raise source.SourceError(f"class {name} is not a named class of the theory")
        if name not in self.used:
            self.used.add(name)
            for s in self.supers[name]:
                self.used.add(s)
            self.version += 1
        return c

    def __contains__(self, name: str) -> bool:
        return name in self.consts

    def axioms(self) -> List[z3.BoolRef]:
        ax: List[z3.BoolRef] = []
        for n in _DISJOINT + _FINAL + ["object", "ValidationError"]:
            self[n]
        names = [n for n in self.consts if n in self.used]
        ax.append(z3.Distinct(*[self.consts[n] for n in names]))
        c = z3.Const("c", Val)
        for n in names:
            for m in names:
                ax.append(sub(self.consts[n], self.consts[m]) == (m in self.supers[n]))
            # upward closure for arbitrary classes
            for s in self.supers[n]:
                if s != n:
                    ax.append(
                        z3.ForAll(
                            [c],
                            z3.Implies(sub(c, self.consts[n]), sub(c, self.consts[s])),
                            patterns=[sub(c, self.consts[n])],
                        )
                    )
        ax.append(z3.ForAll([c], sub(c, c), patterns=[sub(c, c)]))
        ax.append(z3.ForAll([c], sub(c, self.consts["object"]), patterns=[sub(c, self.consts["object"])]))
        for f in _FINAL:
            ax.append(
                z3.ForAll(
                    [c],
                    z3.Implies(sub(c, self.consts[f]), c == self.consts[f]),
                    patterns=[sub(c, self.consts[f])],
                )
            )
        for a, b in itertools.combinations(_DISJOINT, 2):
            ax.append(
                z3.ForAll(
                    [c],
                    z3.Not(z3.And(sub(c, self.consts[a]), sub(c, self.consts[b]))),
                    patterns=[z3.MultiPattern(sub(c, self.consts[a]), sub(c, self.consts[b]))],
                )
            )
        return ax


_classes: Optional[Classes] = None


def classes() -> Classes:
    global _classes
    if _classes is None:
        _classes = Classes()
    return _classes


def K(name: str) -> z3.ExprRef:
    return classes()[name]


def isinst(v, name: str):
    return sub(cls(v), K(name))


_strings: Dict[str, z3.ExprRef] = {}


def strc(text: str) -> z3.ExprRef:
    if text not in _strings:
        _strings[text] = z3.Const(f"str!{len(_strings)}", Val)
    return _strings[text]


def base_axioms() -> List[z3.BoolRef]:
    ax: List[z3.BoolRef] = []
    i = z3.Int("i")
    v = z3.Const("v", Val)
    m = z3.Const("m", Val)
    ax.append(z3.ForAll([i], z3.And(ival(mkint(i)) == i, cls(mkint(i)) == K("int")), patterns=[mkint(i)]))
    ax.append(z3.ForAll([v], z3.Implies(cls(v) == K("int"), mkint(ival(v)) == v), patterns=[ival(v)]))
    ax.append(cls(True_) == K("bool"))
    ax.append(cls(False_) == K("bool"))
    ax.append(True_ != False_)
    ax.append(ival(True_) == 1)
    ax.append(ival(False_) == 0)
    ax.append(z3.ForAll([v], z3.Implies(cls(v) == K("bool"), z3.Or(v == True_, v == False_)), patterns=[cls(v)]))
    ax.append(cls(None_) == K("NoneType"))
    ax.append(z3.ForAll([v], z3.Implies(cls(v) == K("NoneType"), v == None_), patterns=[cls(v)]))
    ax.append(z3.Not(sub(cls(Ellipsis_), K("NoneType"))))
    # == : identity on None / strings / ints (canonical values, no dunder overrides); reflexive;
    # a string never equals a non-string; otherwise unconstrained (e.g. two equal lists)
    a_, b_ = z3.Consts("a_ b_", Val)
    ax.append(z3.ForAll([a_], py_eq(a_, a_), patterns=[py_eq(a_, a_)]))
    ax.append(z3.ForAll([a_, b_], z3.Implies(z3.Or(a_ == None_, b_ == None_), py_eq(a_, b_) == (a_ == b_)), patterns=[py_eq(a_, b_)]))
    ax.append(z3.ForAll([a_, b_], z3.Implies(z3.Or(isinst(a_, "str"), isinst(b_, "str")), py_eq(a_, b_) == (a_ == b_)), patterns=[py_eq(a_, b_)]))
    ax.append(z3.ForAll([a_, b_], z3.Implies(z3.And(cls(a_) == K("int"), cls(b_) == K("int")), py_eq(a_, b_) == (a_ == b_)), patterns=[py_eq(a_, b_)]))
    ax.append(z3.ForAll([v], slen(v) >= 0, patterns=[slen(v)]))
    # instance dictionaries: a dict per object (injective), allocated with its owner, never the owner itself
    ax.append(z3.ForAll([v], z3.And(cls(idict(v)) == K("dict"), idict_owner(idict(v)) == v, alloc0[idict(v)] == alloc0[v]), patterns=[idict(v)]))
    # abstract children raise ValidationError values that existed "before" (functional model)
    ax.append(
        z3.ForAll(
            [m, v],
            z3.And(cls(err(m, v)) == K("ValidationError"), alloc0[err(m, v)]),
            patterns=[err(m, v)],
        )
    )
    # hashability of the builtin classes
    for n in ("list", "dict", "set"):
        ax.append(z3.ForAll([v], z3.Implies(isinst(v, n), z3.Not(hashable(v))), patterns=[hashable(v)]))
    # instances of the hashable builtin classes, and of subclasses that do not override
    # __hash__ / __eq__ (assumption on data values, DESIGN 2.3), are hashable
    for n in ("int", "str", "NoneType", "float", "bytes", "frozenset", "type"):
        ax.append(z3.ForAll([v], z3.Implies(isinst(v, n), hashable(v)), patterns=[hashable(v)]))
    ax.append(z3.ForAll([v], hashable(cls(v)), patterns=[hashable(cls(v))]))
    ax.append(hashable(True_))
    ax.append(hashable(False_))
    for name, s in _strings.items():
        ax.append(cls(s) == K("str"))
        ax.append(slen(s) == len(name))
        ax.append(alloc0[s])
    if len(_strings) > 1:
        ax.append(z3.Distinct(*_strings.values()))
    # named classes are hashable values of class `type` that exist at entry
    K("type")
    cax = classes().axioms()
    c_ = z3.Const("c_", Val)
    ax.append(z3.ForAll([v, c_], z3.Implies(cls(c_) == K("type"), inst_rt(v, c_) == sub(cls(v), c_)), patterns=[inst_rt(v, c_)]))
    for n, c in classes().consts.items():
        if n in classes().used:
            ax.append(hashable(c))
            ax.append(alloc0[c])
            ax.append(cls(c) == K("type"))
    ax.append(alloc0[None_])
    ax.append(alloc0[True_])
    ax.append(alloc0[False_])
    ax.extend(cax)
    return ax


def heap_wf_axioms(attr_names: Iterable[str]) -> List[z3.BoolRef]:
    """closure of the entry heap: what an entry object refers to exists at entry; sizes >= 0"""
    o = z3.Const("o", Val)
    k = z3.Const("k", Val)
    i = z3.Int("i")
    llen0, lget0, dhas0, dget0, dlen0 = (heap0(n) for n in ("llen", "lget", "dhas", "dget", "dlen"))
    ax = [
        z3.ForAll([o, i], z3.Implies(alloc0[o], alloc0[lget0[o][i]]), patterns=[lget0[o][i]]),
        z3.ForAll([o, k], z3.Implies(z3.And(alloc0[o], dhas0[o][k]), z3.And(alloc0[dget0[o][k]], alloc0[k])), patterns=[dget0[o][k]]),
        z3.ForAll([o], llen0[o] >= 0, patterns=[llen0[o]]),
        z3.ForAll([o], dlen0[o] >= 0, patterns=[dlen0[o]]),
    ]
    for a in attr_names:
        h = heap0(attr_heap(a))
        ax.append(z3.ForAll([o], z3.Implies(alloc0[o], alloc0[h[o]]), patterns=[h[o]]))
    return ax
