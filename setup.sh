#!/bin/sh
# Builds /verif/.venv (Python 3.12 overlay of /venv + solver wheels), offline.
set -e
cd "$(dirname "$0")"
if [ -x .venv/bin/python ] && .venv/bin/python -c "import z3, cvc5, jsonschema, apischema, graphql" 2>/dev/null; then
  exit 0
fi
rm -rf .venv
/venv/bin/python -m venv .venv
PIP_NO_INDEX=1 .venv/bin/pip install -q --no-index --find-links /opt/veriftools/wheels z3-solver cvc5 jsonschema crosshair-tool icontract hypothesis >/dev/null
echo "import site; site.addsitedir('/venv/lib/python3.12/site-packages')" > .venv/lib/python3.12/site-packages/_repo_deps.pth
.venv/bin/python -c "import z3, cvc5, jsonschema, apischema, graphql; print('verif venv ok', z3.get_version_string())"
