"""Layer-1 contracts: literals / enums, Any, sets, conversions, discriminator dispatch."""
from __future__ import annotations

import z3

from pyvc import theory as T
from pyvc.calls import COERCE_ERR, COERCE_OK, COERCED
from pyvc.contracts import contract, method_model
from pyvc.theory import K, Val, cls, isinst

from . import spec as S
from .deser_list import _inv_errors

M = "apischema.deserialization.methods"


def _fmt(err, data):
    return z3.If(isinst(err, "str"), err, T.apply1(err, data))


def _fmt_ok(e):
    x = z3.Const("x", Val)
    return z3.Or(isinst(e, "str"), T.forall([x], isinst(T.apply1(e, x), "str"), patterns=[T.apply1(e, x)]))


JCLASS = z3.Function("json_class_of", Val, Val)


@contract(f"{M}:_json_class", props=["C01"])
class JsonClass:
    """first of (bool, int, float, str, NoneType) in the MRO of the datum's class, else the class
    itself: on the exact JSON classes it is the class (walk over __mro__: outside the subset)"""

    assumed = True
    raises: list = []

    def requires(self, c):
        return []

    def modifies(self, c):
        return []

    def ensures(self, c):
        d = c.data
        return {"result": z3.And(c.result == JCLASS(d), z3.Implies(S.is_json_like(d), JCLASS(d) == cls(d)), T.hashable(c.result))}


@contract(f"{M}:LiteralMethod.deserialize", props=["C01", "C02", "C03", "C14"])
class LiteralDeserialize:
    kinds = {"self.value_map": "dict", "self.types": "tuple"}
    coercers = ["self.coercer"]
    raises = ["ValidationError"]

    def requires(self, c):
        s = c.self
        vm, types = c.attr0(s, "value_map"), c.attr0(s, "types")
        j = z3.Int("j")
        return [
            isinst(s, "LiteralMethod"),
            cls(vm) == K("dict"),
            cls(types) == K("tuple"),
            # Layer-2 facts: literal values are primitives (refused otherwise at compile time)
            T.forall([j], z3.Implies(z3.And(j >= 0, j < c.llen0(types)), S.is_json_class(c.lget0(types, j))), patterns=[c.lget0(types, j)]),
            _fmt_ok(c.attr0(s, "error")),
        ]

    def ensures(self, c):
        s, d = c.self, c.data
        vm, types, cf = c.attr0(s, "value_map"), c.attr0(s, "types"), c.attr0(s, "coercer")
        j = z3.Int("j")
        in_types = z3.Exists([j], z3.And(j >= 0, j < c.llen0(types), c.lget0(types, j) == JCLASS(d)))
        strict = z3.And(T.hashable(d), c.dhas0(vm, d), in_types)
        out = {
            "C01: without coercion, returns iff the datum is one of the literal values, of the same JSON class (bool is not a number)": z3.Implies(cf == T.None_, c.returned == strict),
            "C14: a coerced value is accepted only if it is a literal of the class it was coerced to": z3.Implies(
                z3.And(c.returned, z3.Not(strict)),
                z3.Exists([j], z3.And(j >= 0, j < c.llen0(types), COERCE_OK(cf, c.lget0(types, j), d), c.dhas0(vm, COERCED(cf, c.lget0(types, j), d)), JCLASS(COERCED(cf, c.lget0(types, j), d)) == c.lget0(types, j))),
            ),
            "C14: coercion only widens": z3.Implies(strict, c.returned),
        }
        if c.is_return:
            x = z3.Const("x", Val)
            out["C01: image is the member registered for a literal value (the datum's, or the coerced datum's)"] = z3.Or(
                z3.And(strict, c.result == c.dget0(vm, d)),
                z3.And(cf != T.None_, z3.Exists([x], z3.And(c.dhas0(vm, x), c.result == c.dget0(vm, x)))),
            )
        if c.is_raise:
            e = c.exc
            out["C02: type error for an unhashable datum, else the one-of error (or the coercer's rejection)"] = z3.Or(
                z3.And(z3.Not(T.hashable(d)), cls(e) == K("ValidationError")),
                S.is_message_error(c, e, _fmt(c.attr0(s, "error"), d)),
                z3.And(cf != T.None_, isinst(e, "ValidationError")),
            )
        return out

    def _inv(self, c):
        return [c.attr0(c.self, "coercer") != T.None_]

    loops = {0: lambda c: LiteralDeserialize._inv(None, c)}


@contract(f"{M}:copy_containers", props=["C08"])
class CopyContainers:
    """a dict / list datum is rebuilt (fresh dict / list of the same size, recursively); any other
    datum is returned as is.  The body is a recursive comprehension (outside the subset): assumed
    at the call site of AnyMethod, B-checked by drivers/opt_equiv (no sharing with the input)."""

    assumed = True
    raises: list = []
    writes = ["llen", "lget", "dhas", "dget", "dlen"]

    def requires(self, c):
        return []

    def modifies(self, c):
        return []

    def allocates(self, c):
        d = c.data
        return [("dict", c.result, isinst(d, "dict")), ("list", c.result, z3.And(z3.Not(isinst(d, "dict")), isinst(d, "list")))]

    def ensures(self, c):
        d, r = c.data, c.result
        return {
            "identity on non-containers": z3.Implies(z3.Not(z3.Or(isinst(d, "dict"), isinst(d, "list"))), r == d),
            "same size": z3.And(z3.Implies(isinst(d, "dict"), c.dlen(r) == c.dlen0(d)), z3.Implies(z3.And(z3.Not(isinst(d, "dict")), isinst(d, "list")), c.llen(r) == c.llen0(d))),
        }


@contract(f"{M}:AnyMethod.deserialize", props=["C01", "C03", "C08"])
class AnyDeserialize:
    kinds = {"self.constraints": "dict"}
    raises = ["ValidationError"]

    def requires(self, c):
        cs = c.attr0(c.self, "constraints")
        k = z3.Const("k", Val)
        return [isinst(c.self, "AnyMethod"), cls(cs) == K("dict"), T.forall([k], z3.Implies(c.dhas0(cs, k), isinst(c.dget0(cs, k), "tuple")), patterns=[c.dget0(cs, k)])]

    def ensures(self, c):
        cs, d = c.attr0(c.self, "constraints"), c.data
        has = c.dhas0(cs, cls(d))
        out = {"C01: any value is accepted provided the constraints registered for its JSON class hold": c.returned == z3.Or(z3.Not(has), S.all_hold(c.dget0(cs, cls(d)), d))}
        if c.is_return:
            copy = c.truthy0(c.attr0(c.self, "copy"))
            container = z3.Or(isinst(d, "dict"), isinst(d, "list"))
            out["C01/C08: the datum itself, unless it is a list / dict and a copy is asked for"] = z3.Implies(z3.Or(z3.Not(copy), z3.Not(container)), c.result == d)
            out["C08: when a copy is asked for (no_copy=False) a list / dict datum is not returned: the result is a fresh container"] = z3.Implies(z3.And(copy, container), z3.And(c.fresh(c.result), c.result != d))
        if c.is_raise:
            e = c.exc
            tup = c.dget0(cs, cls(d))
            out["C02: exactly the failing constraints' messages"] = z3.And(cls(e) == K("ValidationError"), S.msgs_are_failures(c, c.attr(e, "messages"), tup, d, c.llen0(tup)), c.dlen(c.attr(e, "children")) == 0)
        return out


@contract(f"{M}:SetMethod.deserialize", props=["C01", "C02", "C03"])
class SetDeserialize:
    kinds = {"data": "list", "values": "set"}
    raises = ["ValidationError"]
    exports = ["C01: returns iff data is an array whose elements all conform and whose constraints hold", "C01: image is a set"]
    assumptions = [
        "SetMethod / FrozenSetMethod: the image of every accepted element is hashable (precondition of their contracts, passed on to the collection factory's call site as 'Python typing of the annotated type'); it does NOT hold for Set[Any] / FrozenSet[Any] whose Any node returns lists and dicts: known finding C03 crash<TypeError> (bounded driver, deserialize(Set[Any], [[1]]))"
    ]

    def requires(self, c):
        s = c.self
        vm = c.attr0(s, "value_method")
        x = z3.Const("x", Val)
        return [
            isinst(s, "SetMethod"),
            isinst(c.attr0(s, "constraints"), "tuple"),
            # Layer-2 fact: a set type has hashable elements
            T.forall([x], z3.Implies(T.acc(vm, x), T.hashable(T.img(vm, x))), patterns=[T.img(vm, x)]),
        ]

    def ensures(self, c):
        s, d = c.self, c.data
        vm, cs = c.attr0(s, "value_method"), c.attr0(s, "constraints")
        n = c.llen0(d)
        j = z3.Int("j")
        x = z3.Const("x", Val)
        conforms = z3.And(isinst(d, "list"), S.all_acc_upto(c, vm, d, n), S.all_hold(cs, d))
        out = {"C01: returns iff data is an array whose elements all conform and whose constraints hold": c.returned == conforms}
        if c.is_return:
            r = c.result
            out["C01: image is a set"] = cls(r) == K("set")
            out["C01: image is a fresh set holding exactly the elements' images"] = z3.And(
                cls(r) == K("set"),
                c.fresh(r),
                T.forall([j], z3.Implies(z3.And(j >= 0, j < n), c.dhas(r, T.img(vm, c.lget0(d, j)))), patterns=[c.lget0(d, j)]),
                T.forall([x], z3.Implies(c.dhas(r, x), z3.Exists([j], z3.And(j >= 0, j < n, x == T.img(vm, c.lget0(d, j))))), patterns=[c.dhas(r, x)]),
            )
        if c.is_raise:
            e = c.exc
            m, ch = c.attr(e, "messages"), c.attr(e, "children")
            out["C02: exact error"] = z3.If(
                isinst(d, "list"),
                z3.And(cls(e) == K("ValidationError"), S.msgs_are_failures(c, m, cs, d, c.llen0(cs)), isinst(ch, "dict"), S.seq_children(c, ch, vm, d, n)),
                S.is_bad_type_error(c, e, d, [K("list")]),
            )
        return out

    def _inv(self, c):
        vm = c.attr0(c.self, "value_method")
        d, i = c.data, c.index
        values, errs = c.local_val("values"), c.local_val("elt_errors")
        j = z3.Int("j")
        x = z3.Const("x", Val)
        k = z3.Const("k", Val)
        return [
            isinst(d, "list"),
            cls(values) == K("set"),
            c.fresh(values),
            T.forall([j], z3.Implies(z3.And(j >= 0, j < i, T.acc(vm, c.lget0(d, j))), c.dhas(values, T.img(vm, c.lget0(d, j)))), patterns=[c.lget0(d, j)]),
            T.forall([x], z3.Implies(c.dhas(values, x), z3.Exists([j], z3.And(j >= 0, j < i, T.acc(vm, c.lget0(d, j)), x == T.img(vm, c.lget0(d, j))))), patterns=[c.dhas(values, x)]),
            # here the accumulator starts as an empty dict, not None
            isinst(errs, "dict"),
            c.fresh(errs),
            errs != values,
            S.seq_children(c, errs, vm, d, i),
            c.dlen(errs) >= 0,
            (c.dlen(errs) == 0) == S.all_acc_upto(c, vm, d, i),
        ]

    loops = {0: lambda c: SetDeserialize._inv(None, c)}


@contract(f"{M}:ConversionMethod.deserialize", props=["C03", "C12"])
class ConversionDeserialize:
    callable_attrs = ["converter"]
    raises = ["ValidationError"]

    def requires(self, c):
        return [isinst(c.self, "ConversionMethod")]

    def ensures(self, c):
        s, d = c.self, c.data
        f, m = c.attr0(s, "converter"), c.attr0(s, "method")
        out = {"C12: rejects exactly what the source type rejects": c.returned == T.acc(m, d)}
        if c.is_return:
            out["C12: deserialize(T, d) = f(deserialize(S, d))"] = c.result == T.apply1(f, T.img(m, d))
        if c.is_raise:
            out["C12: the source's own error"] = c.exc == T.err(m, d)
        return out


@contract(f"{M}:DiscriminatorMethod.deserialize", props=["C01", "C02", "C03", "C13"])
class DiscriminatorDeserialize:
    kinds = {"data": "dict", "self.mapping": "dict"}
    raises = ["ValidationError"]

    def requires(self, c):
        s = c.self
        return [isinst(s, "DiscriminatorMethod"), cls(c.attr0(s, "mapping")) == K("dict"), T.hashable(c.attr0(s, "alias")), _fmt_ok(c.attr0(s, "error")), isinst(c.attr0(s, "missing"), "str")]

    def ensures(self, c):
        s, d = c.self, c.data
        alias, mapping = c.attr0(s, "alias"), c.attr0(s, "mapping")
        key = c.dget0(d, alias)
        selectable = z3.And(isinst(d, "dict"), c.dhas0(d, alias), T.hashable(key), c.dhas0(mapping, key))
        out = {}
        if c.is_raise:
            e = c.exc
            ch = c.attr(e, "children")
            k = z3.Const("k", Val)
            one_child = lambda msg: z3.And(  # noqa: E731
                cls(e) == K("ValidationError"),
                S.no_messages(c, e),
                isinst(ch, "dict"),
                T.forall([k], c.dhas(ch, k) == (k == alias), patterns=[c.dhas(ch, k)]),
                S.is_message_error(c, c.dget(ch, alias), msg),
            )
            out["C02/C13: not an object -> type error; no discriminator -> missing property under the alias; unknown value -> one-of error under the alias; else the selected alternative's error"] = z3.If(
                z3.Not(isinst(d, "dict")),
                S.is_bad_type_error(c, e, d, [K("dict")]),
                z3.If(
                    z3.Not(c.dhas0(d, alias)),
                    one_child(c.attr0(s, "missing")),
                    z3.If(z3.Not(z3.And(T.hashable(key), c.dhas0(mapping, key))), one_child(_fmt(c.attr0(s, "error"), key)), isinst(e, "ValidationError")),
                ),
            )
        out["C13: a datum is dispatched only to the alternative its discriminator value maps to"] = z3.Implies(c.returned, selectable)
        return out
