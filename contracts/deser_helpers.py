"""Contracts of the helpers of apischema/deserialization/methods.py and of the abstract
children (`m.deserialize(x)`, `c.validate(x)`).  Helper contracts are derived from the code
and its call sites and are as strong as the solver bears (exact result, exact frame)."""
from __future__ import annotations

import ast

import z3

from pyvc import theory as T
from pyvc.calls import _args, _exc
from pyvc.contracts import class_model, contract, global_model, method_model
from pyvc.symexec import Heap, SV, Unsupported, as_val, sv_bool, sv_val
from pyvc.theory import K, Val, cls, isinst, sub

from . import spec as S

M = "apischema.deserialization.methods"


# --- abstract children -------------------------------------------------------------
@method_model("deserialize")
def child_deserialize(ex, node, st, recv):
    """m.deserialize(x) for an arbitrary DeserializationMethod m: returns img(m, x) iff acc(m, x),
    otherwise raises the ValidationError err(m, x); touches nothing visible (DESIGN 2.6).
    Exceptions of user converters / validators inside children are excepted by C03's statement."""
    outs = []
    for s, k, vs in _args(ex, node, st):
        if k == "exc":
            outs.append((s, k, vs))
            continue
        x = ex.val_of(vs[0])
        ok = s.fork().assume(T.acc(recv, x))
        ko = s.fork().assume(z3.Not(T.acc(recv, x)))
        if ex.feasible(ok):
            outs.append((ok, "val", sv_val(T.img(recv, x))))
        if ex.feasible(ko):
            outs.append((ko, "exc", T.err(recv, x)))
    return outs


@method_model("validate")
def constraint_validate(ex, node, st, recv):
    """c.validate(x) for an arbitrary Constraint c: the boolean holds(c, x).  Assumes the
    constraint is applied to data of the JSON class it was registered for (Layer 2), so that
    the comparison itself does not raise."""
    outs = []
    for s, k, vs in _args(ex, node, st):
        if k == "exc":
            outs.append((s, k, vs))
            continue
        outs.append((s, "val", sv_bool(T.holds(recv, ex.val_of(vs[0])))))
    return outs


# --- format_error: inlined from its real one-line body ------------------------------
@contract(f"{M}:format_error", props=["C02"])
class FormatError:
    inline = True


# --- bad_type ------------------------------------------------------------------------
@contract("apischema.json_schema.types:bad_type", props=["C02", "C03"])
class BadType:
    """ValidationError([message(tp, class of data) for tp in expected]) ; never raises provided
    every expected class is one of the seven JSON classes (precondition, checked at call sites)."""

    assumed = True  # body (list comprehension over f-strings, enum lookup) is outside the subset: B-checked
    raises: list = []
    writes = ["a:messages", "a:children", "llen", "lget", "dhas", "dget", "dlen"]

    def requires(self, c):
        k = z3.Int("k")
        e = c.expected
        return [
            cls(e) == K("tuple"),
            T.forall([k], z3.Implies(z3.And(k >= 0, k < c.llen0(e)), S.is_json_class(c.lget0(e, k))), patterns=[c.lget0(e, k)]),
        ]

    def modifies(self, c):
        return []

    def allocates(self, c):
        r = c.result
        return [("ValidationError", r), ("list", c.attr(r, "messages")), ("dict", c.attr(r, "children"))]

    def ensures(self, c):
        r, e, d = c.result, c.expected, c.data
        m, ch = c.attr(r, "messages"), c.attr(r, "children")
        k = z3.Int("k")
        return {
            "result": z3.And(
                c.llen(m) == c.llen0(e),
                T.forall([k], z3.Implies(z3.And(k >= 0, k < c.llen0(e)), c.lget(m, k) == S.btmsg(c.lget0(e, k), cls(d))), patterns=[c.lget(m, k)]),
                c.dlen(ch) == 0,
                S.no_keys(c, ch),
                m != ch,
            )
        }


# --- set_child_error --------------------------------------------------------------------
@contract(f"{M}:set_child_error", props=["C02"])
class SetChildError:
    kinds = {"errors": "dict"}
    raises: list = []
    writes = ["dhas", "dget", "dlen"]

    def requires(self, c):
        return [z3.Or(c.errors == T.None_, isinst(c.errors, "dict")), T.hashable(c.key)]

    def modifies(self, c):
        return [(c.errors, c.errors != T.None_)]

    def allocates(self, c):
        return [("dict", c.result, c.errors == T.None_)]

    def ensures(self, c):
        e, key, err, r = c.errors, c.key, c.error, c.result
        return {
            "new dict when errors is None": z3.Implies(
                e == T.None_,
                z3.And(
                    c.arr("dhas", r) == z3.Store(z3.K(Val, False), key, True),
                    c.dget(r, key) == err,
                    c.dlen(r) == 1,
                ),
            ),
            "in-place update otherwise": z3.Implies(
                e != T.None_,
                z3.And(
                    r == e,
                    c.arr("dhas", e) == z3.Store(c.arr0("dhas", e), key, True),
                    c.arr("dget", e) == z3.Store(c.arr0("dget", e), key, err),
                    c.dlen(e) == c.dlen0(e) + z3.If(c.dhas0(e, key), 0, 1),
                ),
            ),
            "result is never None": r != T.None_,
        }


# --- validate_constraints ---------------------------------------------------------------
@contract(f"{M}:validate_constraints", props=["C01", "C02"])
class ValidateConstraints:
    kinds = {"constraints": "tuple", "errors": "list"}
    raises = ["ValidationError"]
    writes = ["a:messages", "a:children", "llen", "lget", "dhas", "dget", "dlen"]

    def requires(self, c):
        ce = c.children_errors
        return [isinst(c.constraints, "tuple"), z3.Or(ce == T.None_, isinst(ce, "dict"))]

    def modifies(self, c):
        return []

    def allocates(self, c):
        if not c.is_raise:
            return []
        e = c.exc
        ce = c.children_errors
        keep = z3.And(ce != T.None_, c.dlen0(ce) != 0)
        return [("ValidationError", e), ("list", c.attr(e, "messages")), ("dict", c.attr(e, "children"), z3.Not(keep))]

    def ensures(self, c):
        cs, d, ce = c.constraints, c.data, c.children_errors
        n = c.llen0(cs)
        has_children = z3.And(ce != T.None_, c.dlen0(ce) != 0)
        out = {
            "returns iff every constraint holds and there is no child error": c.returned == z3.And(S.all_hold(cs, d), z3.Not(has_children)),
        }
        if c.is_return:
            out["returns data itself"] = c.result == d
            out["no failing constraint is counted"] = S.nfail(cs, d, n) == 0
        if c.is_raise:
            e = c.exc
            m, ch = c.attr(e, "messages"), c.attr(e, "children")
            out["messages are the failing constraints' messages, in order"] = S.msgs_are_failures(c, m, cs, d, n)
            out["children are the given children errors (same object), else an empty dict"] = z3.If(
                has_children, ch == ce, S.no_keys(c, ch)
            )
        return out

    def _loop0(self, c):
        # outer loop: every constraint before i holds
        cs, d = c.constraints, c.data
        return [S.all_hold_upto(cs, d, c.index), S.nfail(cs, d, c.index) == 0, c.index >= 0]

    def _loop1(self, c):
        cs, d = c.constraints, c.data
        errors = c.local_val("errors")
        i = c.local_int("i")
        return [
            isinst(errors, "list"),
            c.fresh(errors),
            c.index >= i + 1,
            S.all_hold_upto(cs, d, i),
            S.nfail(cs, d, i) == 0,
            z3.Not(T.holds(S.cget(cs, i), d)),
            i >= 0,
            i < c.llen0(cs),
            S.msgs_are_failures(c, errors, cs, d, c.index),
        ]

    loops = {0: lambda c: ValidateConstraints._loop0(None, c), 1: lambda c: ValidateConstraints._loop1(None, c)}
