"""C15: the field-set protocol of apischema/fields.py.

Abstract view of an object decorated with `with_fields_set`: the set object stored under the
key FIELDS_SET_ATTR of its instance dictionary (`view(obj)` = the characteristic function
`dhas(S, .)` of that set).  Every public operation is specified over the WHOLE view (what is in
the set afterwards, for every name -- not only the touched ones) and its frame (`modifies`
lists the set object only; for `__setattr__` also the instance dictionary).

Assumptions stated here and reported in the evidence: FIELDS_SET_ATTR is only ever stored in the
instance dictionary (no class attribute / slot of that name), so `getattr(obj, FIELDS_SET_ATTR)`
is a lookup in `obj.__dict__`; the `__setattr__` wrapped by `with_fields_set` is
`object.__setattr__` (a store into the instance dictionary)."""
from __future__ import annotations

import z3

from pyvc import theory as T
from pyvc.contracts import contract
from pyvc.symexec import Heap, sv_val
from pyvc.theory import K, Val, cls, isinst

F = "apischema.fields"
OF = "apischema.objects.fields"
KEY = T.strc("$FIELDS_SET_ATTR")  # the value of the module constant FIELDS_SET_ATTR (only its identity matters)
_G = {"FIELDS_SET_ATTR": lambda ex: sv_val(KEY), "with_fields_set.__name__": lambda ex: sv_val(T.strc("with_fields_set"))}


def valid_name(c, x):
    """what get_field_name(x) accepts (methods=False)"""
    return z3.Or(isinst(x, "Field"), isinst(x, "ObjectField"), isinst(x, "str"))


def fname(c, x):
    return z3.If(z3.Or(isinst(x, "Field"), isinst(x, "ObjectField")), c.attr0(x, "name"), x)


def decorated(c, obj):
    return c.dhas0(T.idict(obj), KEY)


def view(c, obj):
    return c.dget0(T.idict(obj), KEY)


@contract(f"{OF}:_bad_field", props=["C15"])
class BadField:
    raises = ["TypeError"]
    str_concat = True

    def requires(self, c):
        return []

    def modifies(self, c):
        return []

    def ensures(self, c):
        return {"C15: never returns (raises TypeError)": z3.Not(c.returned)}


@contract(f"{OF}:get_field_name", props=["C15", "C16"])
class GetFieldName:
    raises = ["TypeError"]
    allow_star = True

    def requires(self, c):
        return []

    def modifies(self, c):
        return []

    def ensures(self, c):
        x, m = c.p["field_or_name"], c.truthy0(c.p["methods"])
        prop = z3.And(isinst(x, "property"), c.attr0(x, "fget") != T.None_)
        out = {"C15: accepts exactly fields, object fields and names (and, with methods=True, properties with a getter / functions)": c.returned == z3.Or(valid_name(c, x), z3.And(m, z3.Or(prop, isinst(x, "FunctionType"))))}
        if c.is_return:
            out["C15: the name of a field, a name itself"] = z3.Implies(valid_name(c, x), c.result == fname(c, x))
            out["C16: the name of the getter / function"] = z3.Implies(
                z3.Not(valid_name(c, x)), c.result == z3.If(prop, c.attr0(c.attr0(x, "fget"), "__name__"), c.attr0(x, "__name__"))
            )
        return out


@contract(f"{F}:_fields_set", props=["C15"])
class FieldsSetGetter:
    assumptions = [
        "FIELDS_SET_ATTR is only ever stored in the instance dictionary (no class attribute / slot of that name), so getattr(obj, FIELDS_SET_ATTR) is a lookup in obj.__dict__; instances have a __dict__ (no __slots__)",
    ]
    raises = ["TypeError"]
    dict_attrs = ["FIELDS_SET_ATTR"]
    globals = _G
    str_concat = True

    def requires(self, c):
        return []

    def modifies(self, c):
        return []

    def ensures(self, c):
        out = {"C15: returns iff the object carries a field set (class decorated with with_fields_set); TypeError otherwise": c.returned == decorated(c, c.p["obj"])}
        if c.is_return:
            out["C15: the set object itself (not a copy)"] = c.result == view(c, c.p["obj"])
        return out


@contract(f"{F}:fields_set", props=["C15"])
class FieldsSet(FieldsSetGetter):
    pass


def _names_of(c, fields, k):
    """k is the name of one of the items of the tuple `fields`"""
    i = z3.Int("fi")
    return z3.Exists([i], z3.And(i >= 0, i < c.llen0(fields), k == fname(c, c.lget0(fields, i))))


def _all_valid(c, fields):
    i = z3.Int("fv")
    return T.forall([i], z3.Implies(z3.And(i >= 0, i < c.llen0(fields)), valid_name(c, c.lget0(fields, i))), patterns=[c.lget0(fields, i)])


class _SetOp:
    raises = ["TypeError"]
    allow_star = True
    kinds = {"_fields_set(obj)": "set", "fields": "tuple"}
    globals = _G

    def requires(self, c):
        obj, fields = c.p["obj"], c.p["fields"]
        S = view(c, obj)
        # class invariant of decorated objects: the entry is a set, distinct from the argument tuple
        return [z3.Implies(decorated(c, obj), z3.And(isinst(S, "set"), c.alloc0(S))), cls(fields) == K("tuple")]

    def modifies(self, c):
        return [view(c, c.p["obj"])]


@contract(f"{F}:set_fields", props=["C15"])
class SetFields(_SetOp):
    def ensures(self, c):
        obj, fields, ow = c.p["obj"], c.p["fields"], c.truthy0(c.p["overwrite"])
        S = view(c, obj)
        k = z3.Const("k", Val)
        out = {"C15: returns iff the object is decorated and every argument is a field or a name": c.returned == z3.And(decorated(c, obj), _all_valid(c, fields))}
        if c.is_return:
            out["C15: returns the object"] = c.result == obj
            out["C15: the set is still the object's field set"] = c.dget(T.idict(obj), KEY) == S
            out["C15: afterwards a name is set iff it was set (unless overwrite) or it is one of the arguments"] = T.forall(
                [k], c.dhas(S, k) == z3.Or(z3.And(z3.Not(ow), c.dhas0(S, k)), _names_of(c, fields, k)), patterns=[c.dhas(S, k)]
            )
        return out


@contract(f"{F}:unset_fields", props=["C15"])
class UnsetFields(_SetOp):
    def ensures(self, c):
        obj, fields = c.p["obj"], c.p["fields"]
        S = view(c, obj)
        k = z3.Const("k", Val)
        out = {"C15: returns iff the object is decorated and every argument is a field or a name": c.returned == z3.And(decorated(c, obj), _all_valid(c, fields))}
        if c.is_return:
            out["C15: returns the object"] = c.result == obj
            out["C15: afterwards a name is set iff it was set and it is none of the arguments"] = T.forall(
                [k], c.dhas(S, k) == z3.And(c.dhas0(S, k), z3.Not(_names_of(c, fields, k))), patterns=[c.dhas(S, k)]
            )
        return out


# --- the methods installed by with_fields_set (closures) -------------------------------------
_GC = dict(_G, dataclass_before_error=lambda ex: sv_val(T.strc("$dataclass_before_error")))


def _old_setattr(ex, node, st):
    """the wrapped __setattr__ is object.__setattr__ (assumption of this file): a store into the
    instance dictionary of `self` under the attribute name"""
    outs = []
    for s, k, vs in ex.eval_many(node.args, st):
        if k == "exc":
            outs.append((s, k, vs))
            continue
        o, name, value = (ex.val_of(v) for v in vs)
        ex.check_store_allowed(s, T.idict(o), node)
        ex.dict_store(s, T.idict(o), name, value)
        outs.append((s, "val", sv_val(T.None_)))
    return outs


@contract(f"{F}:with_fields_set.<locals>.new_setattr", props=["C15"])
class NewSetattr:
    """obj.attr = value on a decorated object: the name joins the field set, then the attribute is stored"""

    assumptions = [
        "the __setattr__ wrapped by with_fields_set is object.__setattr__ (a store into the instance dictionary under the attribute name); the hidden attribute FIELDS_SET_ATTR is never assigned through setattr",
    ]
    raises = ["RuntimeError"]
    free_vars = ["old_setattr"]
    globals = _GC
    kinds = {"self.__dict__": "dict", "self.__dict__[FIELDS_SET_ATTR]": "set"}
    call_overrides = {"old_setattr": _old_setattr}

    def requires(self, c):
        o, attr = c.p["self"], c.p["attr"]
        S = view(c, o)
        return [
            z3.Implies(decorated(c, o), z3.And(isinst(S, "set"), c.alloc0(S), S != T.idict(o))),
            cls(attr) == K("str"),
            T.hashable(attr),
            attr != KEY,  # the hidden attribute is never assigned through setattr
        ]

    def modifies(self, c):
        o = c.p["self"]
        return [view(c, o), T.idict(o)]

    def ensures(self, c):
        o, attr, value = c.p["self"], c.p["attr"], c.p["value"]
        S = view(c, o)
        k = z3.Const("k", Val)
        out = {"C15: an object whose field set was not initialised is refused (RuntimeError: decorator order)": c.returned == decorated(c, o)}
        if c.is_return:
            out["C15: attribute assignment marks exactly that name as set, every other name keeps its status"] = T.forall([k], c.dhas(S, k) == z3.Or(c.dhas0(S, k), k == attr), patterns=[c.dhas(S, k)])
            out["C15: the attribute is stored"] = z3.And(c.dhas(T.idict(o), attr), c.dget(T.idict(o), attr) == value)
            out["C15: the set is still the object's field set"] = z3.And(c.dhas(T.idict(o), KEY), c.dget(T.idict(o), KEY) == S)
        return out


def _old_init(ex, node, st):
    """the wrapped __init__ (dataclass-generated or user code): may store any attribute of `self`
    (through the wrapped __setattr__, hence may also grow the current field set) and may raise;
    it does not replace the entry FIELDS_SET_ATTR of the instance dictionary"""
    from pyvc.symexec import Heap as H

    s = st
    o = ex.val_of(s.env["self"])
    h = H(ex, s)
    d = T.idict(o)
    cur = h.dget(d, KEY)
    ex.check_store_allowed(s, d, node)
    # havoc the instance dictionary except the hidden entry, and the members of the current set
    nh, ng = ex.fresh("ih", T.ArrVB), ex.fresh("ig", T.ArrVV)
    s.assume(nh[KEY], ng[KEY] == cur)
    h.set("dhas", z3.Store(z3.Store(h.arr("dhas"), d, nh), cur, ex.fresh("sh", T.ArrVB)))
    h.set("dget", z3.Store(h.arr("dget"), d, ng))
    h.set("dlen", z3.Store(z3.Store(h.arr("dlen"), d, ex.fresh("il", T.I)), cur, ex.fresh("sl", T.I)))
    outs = [(s, "val", sv_val(T.None_))]
    bad = s.fork()
    e = ex.fresh("init_exc")
    bad.assume(T.alloc0[e], isinst(e, "Exception"))
    outs.append((bad, "exc", e))
    return outs


@contract(f"{F}:with_fields_set.<locals>.new_init", props=["C15"])
class NewInit:
    """construction of a decorated object: afterwards the field set is what it was before (empty
    for a new object) plus the parameters passed positionally or by keyword, minus the InitVar
    pseudo-fields, plus the init=False and default_as_set fields"""

    assumptions = [
        "the __init__ wrapped by with_fields_set (dataclass-generated or user code) may store any attribute of self and may raise anything, but does not replace the FIELDS_SET_ATTR entry of the instance dictionary",
    ]
    raises = ["RuntimeError", "Exception"]
    allow_star = True
    free_vars = ["old_init", "params", "init_fields", "post_init_fields"]
    globals = dict(_GC, no_dataclass_init_error=lambda ex: sv_val(T.strc("$no_dataclass_init_error")))
    kinds = {
        "self.__dict__": "dict",
        "self.__dict__.get(FIELDS_SET_ATTR, set())": "set",
        "params": "list",
        "args": "tuple",
        "kwargs": "dict",
        "init_fields": "set",
        "post_init_fields": "set",
        "prev_fields_set": "set",
        "arg_fields": "set",
        "{*params[:len(args)], *kwargs}": "set",
        "prev_fields_set | arg_fields": "set",
    }
    call_overrides = {"old_init": _old_init}

    def requires(self, c):
        o = c.p["self"]
        S = view(c, o)
        params, inits, posts, kwargs = c.p["params"], c.p["init_fields"], c.p["post_init_fields"], c.p["kwargs"]
        j = z3.Int("j")
        k = z3.Const("k", Val)
        return [
            z3.Implies(decorated(c, o), z3.And(isinst(S, "set"), c.alloc0(S), S != T.idict(o))),
            cls(params) == K("list"),
            cls(inits) == K("set"),
            cls(posts) == K("set"),
            cls(kwargs) == K("dict"),
            T.forall([j], z3.Implies(z3.And(j >= 0, j < c.llen0(params)), z3.And(isinst(c.lget0(params, j), "str"), T.hashable(c.lget0(params, j)))), patterns=[c.lget0(params, j)]),
            T.forall([k], z3.Implies(c.dhas0(kwargs, k), z3.And(isinst(k, "str"), T.hashable(k))), patterns=[c.dhas0(kwargs, k)]),
            T.idict(o) != params, T.idict(o) != inits, T.idict(o) != posts, T.idict(o) != kwargs, T.idict(o) != c.p["args"],
            S != params, S != inits, S != posts, S != kwargs, S != c.p["args"],
        ]

    def modifies(self, c):
        o = c.p["self"]
        return [T.idict(o), view(c, o)]

    def ensures(self, c):
        o = c.p["self"]
        S0 = view(c, o)
        params, inits, posts, args, kwargs = c.p["params"], c.p["init_fields"], c.p["post_init_fields"], c.p["args"], c.p["kwargs"]
        out = {}
        if c.is_return:
            S1 = c.dget(T.idict(o), KEY)
            k = z3.Const("k", Val)
            j = z3.Int("j")
            positional = z3.Exists([j], z3.And(j >= 0, j < c.llen0(args), j < c.llen0(params), k == c.lget0(params, j)))
            passed = z3.Or(positional, c.dhas0(kwargs, k))
            prev = z3.And(decorated(c, o), c.dhas0(S0, k))
            out["C15: the object carries a field set, freshly built"] = z3.And(c.dhas(T.idict(o), KEY), isinst(S1, "set"), c.fresh(S1))
            out["C15: a name is set iff it was set before, or it is a passed parameter that is not an InitVar, or an init=False / default_as_set field"] = T.forall(
                [k], c.dhas(S1, k) == z3.Or(prev, z3.And(passed, z3.Not(c.dhas0(inits, k))), c.dhas0(posts, k)), patterns=[c.dhas(S1, k)]
            )
            out["C15: the closure's parameter tables are untouched"] = z3.And(c.llen(params) == c.llen0(params), c.dlen(inits) == c.dlen0(inits), c.dlen(posts) == c.dlen0(posts))
        return out


OBJECT_NEW = z3.Const("G_object_new", Val)
NEWCLS = z3.Function("class_instantiated", Val, Val)


def _alloc_instance(ex, node, st):
    """object.__new__(cls) / the wrapped __new__(cls, ...): a fresh instance (of an unknown class)
    with an empty-or-not instance dictionary that has no field-set entry yet"""
    from pyvc.symexec import Heap as H

    s = st
    o = ex.new_obj(s, ex.fresh("newcls"), "obj")
    h = H(ex, s)
    d = T.idict(o)
    # the instance dictionary of a fresh object is fresh as well, and holds no field set yet
    s.assume(z3.Not(T.alloc0[d]), z3.Not(h.arr("alloc")[d]), z3.Not(h.dhas(d, KEY)))
    h.set("alloc", z3.Store(h.arr("alloc"), d, True))
    return [(s, "val", sv_val(o))]


@contract(f"{F}:with_fields_set.<locals>.new_new", props=["C15"])
class NewNew:
    """allocation of a decorated object: the instance starts with an EMPTY field set (so that a
    subclass overriding __init__ can assign attributes before / without calling the wrapped __init__)"""

    assumptions = [
        "object.__new__(cls) / the wrapped __new__ return a fresh instance whose instance dictionary holds no field set yet",
    ]
    raises: list = []
    allow_star = True
    free_vars = ["old_new"]
    globals = dict(_GC, **{"object.__new__": lambda ex: sv_val(OBJECT_NEW)})
    kinds = {"obj.__dict__": "dict", "args": "tuple", "kwargs": "dict"}
    call_overrides = {"object.__new__": _alloc_instance, "old_new": _alloc_instance}

    def requires(self, c):
        return [c.llen0(c.p["args"]) >= 1]

    def modifies(self, c):
        return []

    def ensures(self, c):
        out = {}
        if c.is_return:
            o = c.result
            S = c.dget(T.idict(o), KEY)
            k = z3.Const("k", Val)
            out["C15: a new object, carrying a fresh and empty field set"] = z3.And(
                c.fresh(o), c.dhas(T.idict(o), KEY), isinst(S, "set"), c.fresh(S), T.forall([k], z3.Not(c.dhas(S, k)), patterns=[c.dhas(S, k)]), c.dlen(S) == 0
            )
        return out


# --- apischema.dataclasses.replace ---------------------------------------------------------------
DC = "apischema.dataclasses"
FIELDS_KEY = T.strc("$_FIELDS")
INITVAR = z3.Const("G_FIELD_INITVAR", Val)
MISSING_ = z3.Const("G_MISSING", Val)
IS_DC = z3.Function("is_dataclass_", Val, T.B)
REPLACED = z3.Function("dataclasses_replace", Val, Val, Val)  # the result of dataclasses.replace(obj, **changes): not used as a value, only to name it


def _is_dataclass(ex, node, st):
    outs = []
    for s, k, vs in ex.eval_many(node.args, st):
        outs.append((s, k, vs) if k == "exc" else (s, "val", SV_bool(IS_DC(ex.val_of(vs[0])))))
    return outs


def SV_bool(t):
    from pyvc.symexec import sv_bool

    return sv_bool(t)


def _dc_replace(ex, node, st):
    """dataclasses.replace(obj, **changes): builds a NEW instance of the same class through its
    __init__ (which, for a decorated class, is new_new + new_init above: the instance carries a
    field set of its own); may raise (TypeError / ValueError of dataclasses.replace, user __init__).
    The content of the new instance's field set at this point is left unconstrained: replace()
    overwrites it."""
    from pyvc.symexec import Heap as H

    s = st
    obj = ex.val_of(s.env["__obj"])
    h = H(ex, s)
    bad = s.fork()
    e = ex.fresh("replace_exc")
    bad.assume(T.alloc0[e], isinst(e, "Exception"))
    r = ex.new_obj(s, ex.fresh("rcls"), "obj")
    d = T.idict(r)
    S = ex.new_dict(s, ex.fresh("rsh", T.ArrVB), T.NOGET, ex.fresh("rsl", T.I), K("set"), "set")
    h = H(ex, s)
    s.assume(z3.Not(T.alloc0[d]), z3.Not(h.arr("alloc")[d]), d != S)
    h.set("alloc", z3.Store(h.arr("alloc"), d, True))
    dec = h.dhas(T.idict(obj), KEY)
    nh, ng = ex.fresh("rdh", T.ArrVB), ex.fresh("rdg", T.ArrVV)
    s.assume(nh[KEY] == dec, z3.Implies(dec, ng[KEY] == S))
    h.set("dhas", z3.Store(h.arr("dhas"), d, nh))
    h.set("dget", z3.Store(h.arr("dget"), d, ng))
    return [(s, "val", sv_val(r)), (bad, "exc", e)]


def _initvar(c, fields, k, pre=True):
    has = c.dhas0(fields, k) if pre else c.dhas(fields, k)
    get = c.dget0(fields, k) if pre else c.dget(fields, k)
    return z3.And(has, T.py_eq(c.attr0(get, "_field_type") if pre else c.attr(get, "_field_type"), INITVAR))


@contract(f"{DC}:_replace", props=["C15"])
class Replace:
    """apischema.dataclasses.replace: the copy's field set is the original's plus the changed
    names that are real fields (InitVar pseudo-fields excluded)"""

    raises = ["AssertionError", "Exception"]
    allow_star = True
    setcomp_trigger = True
    dict_attrs = ["FIELDS_SET_ATTR"]
    callable_attrs = ["default_factory"]
    globals = dict(
        _G,
        _FIELDS=lambda ex: sv_val(FIELDS_KEY),
        _FIELD_INITVAR=lambda ex: sv_val(INITVAR),
        MISSING=lambda ex: sv_val(MISSING_),
    )
    kinds = {
        "getattr(__obj, _FIELDS)": "dict",
        "changes": "dict",
        "init_vars": "set",
        "fields_set(__obj)": "set",
    }
    call_overrides = {"is_dataclass": _is_dataclass, "replace_": _dc_replace}
    assumptions = [
        "dataclasses.replace(obj, **changes) returns a new instance of obj's class, built through the class's __new__ / __init__ (for a decorated class: the wrappers proved in this file), hence carrying its own field set iff obj does; its exceptions are passed on",
        "the names in a field set and the keyword names of a call have class exactly str (class invariant of with_fields_set objects: they come from parameter names, attribute names and get_field_name)",
    ]

    def _fields(self, c):
        return T.dynattr(c.p["__obj"], FIELDS_KEY)

    def requires(self, c):
        obj, changes = c.p["__obj"], c.p["changes"]
        fields = self._fields(c)
        S = view(c, obj)
        k = z3.Const("k", Val)
        return [
            cls(fields) == K("dict"),
            T.alloc0[fields],
            T.forall([k], z3.Implies(c.dhas0(fields, k), z3.And(cls(k) == K("str"), T.hashable(k), T.alloc0[c.dget0(fields, k)])), patterns=[c.dhas0(fields, k)]),
            T.forall([k], z3.Implies(c.dhas0(changes, k), z3.And(cls(k) == K("str"), T.hashable(k))), patterns=[c.dhas0(changes, k)]),
            z3.Implies(decorated(c, obj), z3.And(isinst(S, "set"), c.alloc0(S), S != fields, T.forall([k], z3.Implies(c.dhas0(S, k), cls(k) == K("str")), patterns=[c.dhas0(S, k)]))),
            T.idict(obj) != fields,
        ]

    def modifies(self, c):
        return []

    @staticmethod
    def _inv0(c):
        changes, fields = c.p["changes"], T.dynattr(c.p["__obj"], FIELDS_KEY)
        k = z3.Const("k", Val)
        return [
            # only InitVar names are added to the changes
            T.forall([k], z3.Implies(c.dhas0(changes, k), c.dhas(changes, k)), patterns=[c.dhas(changes, k)]),
            T.forall([k], z3.Implies(c.dhas(changes, k), z3.Or(c.dhas0(changes, k), _initvar(c, fields, k))), patterns=[c.dhas(changes, k)]),
            T.forall([k], z3.Implies(c.dhas(changes, k), z3.And(cls(k) == K("str"), T.hashable(k))), patterns=[c.dhas(changes, k)]),
            cls(changes) == K("dict"),
        ]

    loops = {0: lambda c: Replace._inv0(c)}

    def ensures(self, c):
        obj, changes = c.p["__obj"], c.p["changes"]
        fields = self._fields(c)
        out = {}
        if c.is_return:
            r = c.result
            S0 = view(c, obj)
            k = z3.Const("k", Val)
            Sr = c.dget(T.idict(r), KEY)
            out["C15: the copy is a new object; it tracks its fields iff the original does"] = z3.And(c.fresh(r), c.dhas(T.idict(r), KEY) == decorated(c, obj))
            out["C15: the copy's field set = the original's field set + the changed names that are not InitVar pseudo-fields"] = z3.Implies(
                decorated(c, obj),
                T.forall([k], c.dhas(Sr, k) == z3.Or(c.dhas0(S0, k), z3.And(c.dhas0(changes, k), z3.Not(_initvar(c, fields, k)))), patterns=[c.dhas(Sr, k)]),
            )
            out["C15: the original keeps its field set"] = z3.Implies(decorated(c, obj), T.forall([k], c.dhas(S0, k) == c.dhas0(S0, k), patterns=[c.dhas(S0, k)]))
        return out
