"""Layer-1 contracts: exact-length tuples, sets, and the wrappers that retype a list node's
image (frozenset, variadic tuple)."""
from __future__ import annotations

import z3

from pyvc import theory as T
from pyvc.contracts import contract
from pyvc.theory import K, Val, cls, isinst

from . import spec as S
from .deser_list import _inv_errors

M = "apischema.deserialization.methods"


def _fmt(err, data):
    return z3.If(isinst(err, "str"), err, T.apply1(err, data))


@contract(f"{M}:TupleMethod.deserialize", props=["C01", "C02", "C03"])
class TupleDeserialize:
    kinds = {"data": "list", "elts": "list", "self.elt_methods": "tuple"}
    raises = ["ValidationError"]

    def requires(self, c):
        s = c.self
        x = z3.Const("x", Val)
        fmt_ok = lambda e: z3.Or(isinst(e, "str"), T.forall([x], isinst(T.apply1(e, x), "str"), patterns=[T.apply1(e, x)]))  # noqa: E731
        # error templates are strings or formatters returning strings (preformat_error, Layer 2)
        return [
            isinst(s, "TupleMethod"),
            isinst(c.attr0(s, "constraints"), "tuple"),
            isinst(c.attr0(s, "elt_methods"), "tuple"),
            fmt_ok(c.attr0(s, "min_len_error")),
            fmt_ok(c.attr0(s, "max_len_error")),
        ]

    def ensures(self, c):
        s, d = c.self, c.data
        ms, cs = c.attr0(s, "elt_methods"), c.attr0(s, "constraints")
        n = c.llen0(ms)
        at = lambda j: c.lget0(ms, j)  # noqa: E731
        j = z3.Int("j")
        conforms = z3.And(isinst(d, "list"), c.llen0(d) == n, S.all_acc_upto(c, at, d, n), S.all_hold(cs, d))
        out = {"C01: returns iff data is an array of exactly the declared length whose i-th element conforms to the i-th type and whose constraints hold": c.returned == conforms}
        if c.is_return:
            r = c.result
            out["C01: image is a fresh tuple of the elements' images"] = z3.And(
                cls(r) == K("tuple"),
                c.fresh(r),
                c.llen(r) == n,
                T.forall([j], z3.Implies(z3.And(j >= 0, j < n), c.lget(r, j) == T.img(at(j), c.lget0(d, j))), patterns=[c.lget(r, j)]),
            )
        if c.is_raise:
            e = c.exc
            m, ch = c.attr(e, "messages"), c.attr(e, "children")
            out["C02: exact error (type / too short / too long / constraints + one child per rejected element)"] = z3.If(
                z3.Not(isinst(d, "list")),
                S.is_bad_type_error(c, e, d, [K("list")]),
                z3.If(
                    c.llen0(d) < n,
                    S.is_message_error(c, e, _fmt(c.attr0(s, "min_len_error"), d)),
                    z3.If(
                        c.llen0(d) > n,
                        S.is_message_error(c, e, _fmt(c.attr0(s, "max_len_error"), d)),
                        z3.And(cls(e) == K("ValidationError"), S.msgs_are_failures(c, m, cs, d, c.llen0(cs)), isinst(ch, "dict"), S.seq_children(c, ch, at, d, n)),
                    ),
                ),
            )
        return out

    def _inv(self, c):
        s, d, i = c.self, c.data, c.index
        ms = c.attr0(s, "elt_methods")
        at = lambda j: c.lget0(ms, j)  # noqa: E731
        elts, errs = c.local_val("elts"), c.local_val("elt_errors")
        j = z3.Int("j")
        return [
            isinst(d, "list"),
            c.llen0(d) == c.llen0(ms),
            cls(elts) == K("list"),
            c.fresh(elts),
            c.llen(elts) == c.llen0(ms),
            T.forall([j], z3.Implies(z3.And(j >= 0, j < i, T.acc(at(j), c.lget0(d, j))), c.lget(elts, j) == T.img(at(j), c.lget0(d, j))), patterns=[c.lget(elts, j)]),
        ] + _inv_errors(c, errs, at, d, i)

    loops = {0: lambda c: TupleDeserialize._inv(None, c)}


@contract(f"{M}:VariadicTupleMethod.deserialize", props=["C01", "C02", "C03"])
class VariadicTupleDeserialize:
    kinds = {"self.method.deserialize(data)": "list"}
    raises = ["ValidationError"]
    exports = ["C01: accepts exactly what the wrapped list node accepts", "C01: image is a tuple"]

    def requires(self, c):
        m = c.attr0(c.self, "method")
        x = z3.Const("x", Val)
        # Layer-2 fact: the wrapped method is a list node (its images are lists)
        return [isinst(c.self, "VariadicTupleMethod"), T.forall([x], z3.Implies(T.acc(m, x), isinst(T.img(m, x), "list")), patterns=[T.img(m, x)])]

    def ensures(self, c):
        m, d = c.attr0(c.self, "method"), c.data
        out = {"C01: accepts exactly what the wrapped list node accepts": c.returned == T.acc(m, d)}
        if c.is_return:
            r = c.result
            out["C01: image is a tuple"] = cls(r) == K("tuple")
            out["C01: image is a fresh tuple with the items of the list image"] = z3.And(cls(r) == K("tuple"), c.fresh(r), c.llen(r) == c.llen0(T.img(m, d)), c.arr("lget", r) == c.arr0("lget", T.img(m, d)))
        if c.is_raise:
            out["C02: the wrapped node's error, unchanged"] = c.exc == T.err(m, d)
        return out


@contract(f"{M}:FrozenSetMethod.deserialize", props=["C01", "C02", "C03"])
class FrozenSetDeserialize:
    kinds = {"self.method.deserialize(data)": "list"}
    raises = ["ValidationError"]
    exports = ["C01: accepts exactly what the wrapped list node accepts", "C01: image is a frozenset"]

    def requires(self, c):
        m = c.attr0(c.self, "method")
        x = z3.Const("x", Val)
        j = z3.Int("j")
        # Layer-2 facts: the wrapped method is a list node, and a frozenset type has hashable elements
        return [
            isinst(c.self, "FrozenSetMethod"),
            T.forall([x], z3.Implies(T.acc(m, x), isinst(T.img(m, x), "list")), patterns=[T.img(m, x)]),
            T.forall([x, j], z3.Implies(z3.And(T.acc(m, x), j >= 0, j < c.llen0(T.img(m, x))), T.hashable(c.lget0(T.img(m, x), j))), patterns=[c.lget0(T.img(m, x), j)]),
        ]

    def ensures(self, c):
        m, d = c.attr0(c.self, "method"), c.data
        out = {"C01: accepts exactly what the wrapped list node accepts": c.returned == T.acc(m, d)}
        if c.is_return:
            r = c.result
            j = z3.Int("j")
            im = T.img(m, d)
            out["C01: image is a frozenset"] = cls(r) == K("frozenset")
            out["C01: image is a fresh frozenset holding the items of the list image"] = z3.And(c.fresh(r), T.forall([j], z3.Implies(z3.And(j >= 0, j < c.llen0(im)), c.dhas(r, c.lget0(im, j))), patterns=[c.lget0(im, j)]))
        if c.is_raise:
            out["C02: the wrapped node's error, unchanged"] = c.exc == T.err(m, d)
        return out
