"""Specification vocabulary shared by the sidecar contracts (SMT reading).

Written from the property statements (C01 / C02 rules), not from the code:
  * a constraint tuple `cs` holds of `d` iff every constraint holds;
  * the messages of a rejected datum are the messages of its failing constraints in
    declaration order (nfail counts failing constraints of a prefix, so message k sits
    at position nfail(k));
  * the children of a container error are exactly the rejected children, keyed by index
    (arrays) or key (mappings, objects), each holding the child's own error.
"""
from __future__ import annotations

import z3

from pyvc import theory as T
from pyvc.contracts import spec_axioms
from pyvc.theory import K, Val, cls, isinst, sub

# --- constraints -------------------------------------------------------------
a_error0 = T.heap0(T.attr_heap("error"))
lget0 = T.heap0("lget")
llen0 = T.heap0("llen")

_cs, _d = z3.Consts("cs d", Val)
_j = z3.Int("j")


def cget(cs, k):
    return lget0[cs][k]


def cmsg(c, d):
    """format_error(c.error, d): the error template itself, or the template applied to d"""
    e = a_error0[c]
    return z3.If(isinst(e, "str"), e, T.apply1(e, d))


nfail = z3.RecFunction("nfail", Val, Val, T.I, T.I)
z3.RecAddDefinition(
    nfail,
    [_cs, _d, _j],
    z3.If(_j <= 0, 0, nfail(_cs, _d, _j - 1) + z3.If(T.holds(cget(_cs, _j - 1), _d), 0, 1)),
)


def all_hold(cs, d):
    k = z3.Int("k")
    return T.forall([k], z3.Implies(z3.And(k >= 0, k < llen0[cs]), T.holds(cget(cs, k), d)), patterns=[T.holds(cget(cs, k), d)])


def all_hold_upto(cs, d, i):
    k = z3.Int("k")
    return T.forall([k], z3.Implies(z3.And(k >= 0, k < i), T.holds(cget(cs, k), d)), patterns=[T.holds(cget(cs, k), d)])


def msgs_are_failures(c, msgs, cs, d, upto):
    """list object `msgs` (in ctx c's current heap) holds the messages of the failing constraints
    among cs[0..upto), in order"""
    k = z3.Int("k")
    return z3.And(
        c.llen(msgs) == nfail(cs, d, upto),
        T.forall(
            [k],
            z3.Implies(
                z3.And(k >= 0, k < upto, z3.Not(T.holds(cget(cs, k), d))),
                z3.And(
                    nfail(cs, d, k) >= 0,
                    nfail(cs, d, k) < nfail(cs, d, upto),
                    c.lget(msgs, nfail(cs, d, k)) == cmsg(cget(cs, k), d),
                ),
            ),
            patterns=[T.holds(cget(cs, k), d)],
        ),
    )


# --- bad_type ------------------------------------------------------------------
# message text of bad_type(data, tp): a function of the expected class and of the class of data
btmsg = z3.Function("btmsg", Val, Val, Val)
JSON_CLASSES = ["NoneType", "bool", "str", "int", "float", "list", "dict"]


def is_json_class(c):
    return z3.Or(*[c == K(n) for n in JSON_CLASSES])


def is_bad_type_error(c, e, data, expected_classes):
    """`e` is ValidationError([msg(tp) for tp in expected], {}) for the static list of classes"""
    m = c.attr(e, "messages")
    ch = c.attr(e, "children")
    return z3.And(
        cls(e) == K("ValidationError"),
        isinst(m, "list"),
        c.llen(m) == len(expected_classes),
        *[c.lget(m, j) == btmsg(k, cls(data)) for j, k in enumerate(expected_classes)],
        isinst(ch, "dict"),
        c.dlen(ch) == 0,
        empty_dict(c, ch),
    )


def no_keys(c, d):
    """producer-side fact about a fresh empty dict: no key at all"""
    k = z3.Const("k", Val)
    return z3.And(c.dlen(d) == 0, T.forall([k], z3.Not(c.dhas(d, k)), patterns=[c.dhas(d, k)]))


def empty_dict(c, d):
    """a dict is empty iff its length is 0 (dict stores keep dlen in step with membership)"""
    return c.dlen(d) == 0


def no_messages(c, e):
    m = c.attr(e, "messages")
    return z3.And(z3.Or(isinst(m, "list"), isinst(m, "tuple")), c.llen(m) == 0)


@spec_axioms
def _axioms():
    tp, dc = z3.Consts("tp dc", Val)
    return [
        T.forall([tp, dc], z3.And(cls(btmsg(tp, dc)) == K("str"), T.alloc0[btmsg(tp, dc)]), patterns=[btmsg(tp, dc)]),
    ]


# --- children of a sequence error -------------------------------------------------
def seq_children(c, ch, vm, data, upto):
    """dict `ch` is { j : err(vm, data[j]) | 0 <= j < upto, not acc(vm, data[j]) }
    (vm is a method, or a function index -> method for tuples)"""
    k = z3.Const("k", Val)
    j = z3.Int("j")
    if callable(vm):
        at = vm
        return z3.And(
            T.forall(
                [k],
                c.dhas(ch, k) == z3.And(cls(k) == K("int"), T.ival(k) >= 0, T.ival(k) < upto, z3.Not(T.acc(at(T.ival(k)), c.lget0(data, T.ival(k))))),
                patterns=[c.dhas(ch, k)],
            ),
            T.forall(
                [j],
                z3.Implies(
                    z3.And(j >= 0, j < upto, z3.Not(T.acc(at(j), c.lget0(data, j)))),
                    z3.And(c.dhas(ch, T.mkint(j)), c.dget(ch, T.mkint(j)) == T.err(at(j), c.lget0(data, j))),
                ),
                patterns=[c.lget0(data, j)],
            ),
        )
    return z3.And(
        T.forall(
            [k],
            c.dhas(ch, k) == z3.And(cls(k) == K("int"), T.ival(k) >= 0, T.ival(k) < upto, z3.Not(T.acc(vm, c.lget0(data, T.ival(k))))),
            patterns=[c.dhas(ch, k)],
        ),
        T.forall(
            [j],
            z3.Implies(
                z3.And(j >= 0, j < upto, z3.Not(T.acc(vm, c.lget0(data, j)))),
                z3.And(c.dhas(ch, T.mkint(j)), c.dget(ch, T.mkint(j)) == T.err(vm, c.lget0(data, j))),
            ),
            patterns=[T.acc(vm, c.lget0(data, j))],
        ),
    )


def all_acc_upto(c, vm, data, upto):
    j = z3.Int("j")
    if callable(vm):
        return T.forall([j], z3.Implies(z3.And(j >= 0, j < upto), T.acc(vm(j), c.lget0(data, j))), patterns=[c.lget0(data, j)])
    return T.forall([j], z3.Implies(z3.And(j >= 0, j < upto), T.acc(vm, c.lget0(data, j))), patterns=[T.acc(vm, c.lget0(data, j))])


def some_rejected_upto(c, vm, data, upto):
    j = z3.Int("jw")
    if callable(vm):
        return z3.Exists([j], z3.And(j >= 0, j < upto, z3.Not(T.acc(vm(j), c.lget0(data, j)))))
    return z3.Exists([j], z3.And(j >= 0, j < upto, z3.Not(T.acc(vm, c.lget0(data, j)))))


def is_json_like(d):
    """the statement's domain: values of the seven JSON classes exactly"""
    return z3.Or(*[cls(d) == K(n) for n in JSON_CLASSES])


def is_message_error(c, e, msg):
    """`e` is ValidationError(msg) for a single message"""
    m, ch = c.attr(e, "messages"), c.attr(e, "children")
    return z3.And(cls(e) == K("ValidationError"), isinst(m, "list"), c.llen(m) == 1, c.lget(m, 0) == msg, isinst(ch, "dict"), c.dlen(ch) == 0, empty_dict(c, ch), c.alloc(e), c.alloc(m), c.alloc(ch))
