"""Layer-1 contracts of the object nodes (appendix A.1 of DESIGN.md): required / defaulted /
aliased fields, unexpected properties, the discriminator property of a discriminated parent,
and the `len(data) != fields_count` shortcut (finite-set cardinality)."""
from __future__ import annotations

import z3

from pyvc import theory as T
from pyvc.calls import _args
from pyvc.contracts import contract, method_model
from pyvc.symexec import sv_val
from pyvc.theory import K, Val, cls, isinst

from . import spec as S

M = "apischema.deserialization.methods"

CONSTRUCTED = z3.Function("constructed", Val, Val, Val)


@method_model("construct")
def constructor_construct(ex, node, st, recv):
    """constructor.construct(fields): the object constructed(ctor, fields) -- user constructors
    (__init__ / __post_init__) are outside the contract; their exceptions are excepted by C03"""
    outs = []
    for s, k, vs in _args(ex, node, st):
        if k == "exc":
            outs.append((s, k, vs))
            continue
        outs.append((s, "val", sv_val(CONSTRUCTED(recv, ex.val_of(vs[0])))))
    return outs


lget0, llen0 = T.heap0("lget"), T.heap0("llen")
dhas0, dget0, dlen0 = T.heap0("dhas"), T.heap0("dget"), T.heap0("dlen")


def A(name):
    return T.heap0(T.attr_heap(name))


def fld(F, j):
    return lget0[F][j]


def alias(F, j):
    return A("alias")[fld(F, j)]


def meth(F, j):
    return A("method")[fld(F, j)]


def req(F, j):
    return A("required")[fld(F, j)] == T.True_


def fbd(F, j):
    return A("fall_back_on_default")[fld(F, j)] == T.True_


# pres(F, hasD, i): the aliases of fields[0..i) that are keys of the datum (as a characteristic array)
_F = z3.Const("F", Val)
_H = z3.Const("H", T.ArrVB)
_i = z3.Int("i")
pres = z3.RecFunction("pres", Val, T.ArrVB, T.I, T.ArrVB)
z3.RecAddDefinition(
    pres,
    [_F, _H, _i],
    z3.If(_i <= 0, z3.K(Val, False), z3.If(_H[alias(_F, _i - 1)], z3.Store(pres(_F, _H, _i - 1), alias(_F, _i - 1), True), pres(_F, _H, _i - 1))),
)


def bad(F, D, j):
    """field j produces an error entry: present but rejected without fall-back, or absent though required"""
    a = alias(F, j)
    return z3.If(dhas0[D][a], z3.And(z3.Not(T.acc(meth(F, j), dget0[D][a])), z3.Or(req(F, j), z3.Not(fbd(F, j)))), req(F, j))


def field_children(c, ch, F, D, upto, missing):
    """ch restricted to the field aliases: { alias_j : error | j < upto, bad(j) }"""
    j = z3.Int("j")
    return z3.And(
        T.forall(
            [j],
            z3.Implies(
                z3.And(j >= 0, j < upto, bad(F, D, j)),
                z3.And(
                    c.dhas(ch, alias(F, j)),
                    z3.If(dhas0[D][alias(F, j)], c.dget(ch, alias(F, j)) == T.err(meth(F, j), dget0[D][alias(F, j)]), S.is_message_error(c, c.dget(ch, alias(F, j)), missing)),
                ),
            ),
            patterns=[fld(F, j)],
        ),
    )


def is_field_bad_key(F, D, k, upto):
    j = z3.Int("jb")
    return z3.Exists([j], z3.And(j >= 0, j < upto, alias(F, j) == k, bad(F, D, j)))


@contract(f"{M}:SimpleObjectMethod.deserialize", props=["C01", "C02", "C03", "C08", "C13"])
class SimpleObjectDeserialize:
    kinds = {"data": "dict", "self.fields": "tuple", "self.all_aliases": "set", "data.keys() - self.all_aliases": "set"}
    raises = ["ValidationError"]
    int_vars = ["fields_count"]
    shards = 12  # 279 obligations, some of them slow: discharged by 12 worker processes

    # -- vocabulary
    def _terms(self, c):
        s, data = c.self, c.data
        F, AA = c.attr0(s, "fields"), c.attr0(s, "all_aliases")
        isd = isinst(data, "dict")
        D = z3.If(isd, data, c.attr0(data, "data"))
        disc = z3.If(isd, T.None_, c.attr0(data, "discriminator"))
        return s, data, F, AA, D, disc

    def requires(self, c):
        s, data, F, AA, D, disc = self._terms(c)
        j, i = z3.Int("j"), z3.Int("i")
        k = z3.Const("k", Val)
        n = c.llen0(F)
        boolv = lambda v: cls(v) == K("bool")  # noqa: E731
        return [
            isinst(s, "SimpleObjectMethod"),
            cls(F) == K("tuple"),
            z3.Or(cls(AA) == K("set"), cls(AA) == K("frozenset")),
            boolv(c.attr0(s, "typed_dict")),
            isinst(c.attr0(s, "missing"), "str"),
            isinst(c.attr0(s, "unexpected"), "str"),
            # class invariant of the node (established by the factory, Layer 2)
            T.forall([j], z3.Implies(z3.And(j >= 0, j < n), z3.And(isinst(alias(F, j), "str"), boolv(A("required")[fld(F, j)]), boolv(A("fall_back_on_default")[fld(F, j)]))), patterns=[fld(F, j)]),
            T.forall([i, j], z3.Implies(z3.And(i >= 0, i < j, j < n), alias(F, i) != alias(F, j)), patterns=[z3.MultiPattern(fld(F, i), fld(F, j))]),
            T.forall([k], c.dhas0(AA, k) == z3.Exists([j], z3.And(j >= 0, j < n, alias(F, j) == k)), patterns=[c.dhas0(AA, k)]),
            z3.Implies(isinst(data, "Discriminated"), isinst(c.attr0(data, "discriminator"), "str")),
            # the statement's data domain: property names are strings
            z3.Implies(isinst(D, "dict"), T.forall([k], z3.Implies(c.dhas0(D, k), isinst(k, "str")), patterns=[c.dhas0(D, k)])),
        ]

    def lemmas(self, c):
        s, data, F, AA, D, disc = self._terms(c)
        hasD = dhas0[D]
        return T.card_axioms() + [
            # len(dict) = number of its keys; and the finite-set fact behind the `len(data) != fields_count` shortcut
            z3.Implies(isinst(D, "dict"), c.dlen0(D) == T.card(hasD)),
            T.card_subset_eq(pres(F, hasD, c.llen0(F)), hasD),
        ]

    def _conf(self, c):
        s, data, F, AA, D, disc = self._terms(c)
        j = z3.Int("j")
        k = z3.Const("k", Val)
        n = c.llen0(F)
        td = c.attr0(s, "typed_dict") == T.True_
        shape = z3.And(isinst(D, "dict"), z3.Or(isinst(data, "dict"), isinst(data, "Discriminated")))
        return shape, z3.And(
            shape,
            T.forall([j], z3.Implies(z3.And(j >= 0, j < n), z3.Not(bad(F, D, j))), patterns=[fld(F, j)]),
            z3.Or(td, T.forall([k], z3.Implies(c.dhas0(D, k), z3.Or(c.dhas0(AA, k), k == disc)), patterns=[c.dhas0(D, k)])),
        )

    def ensures(self, c):
        s, data, F, AA, D, disc = self._terms(c)
        n = c.llen0(F)
        shape, conf = self._conf(c)
        td = c.attr0(s, "typed_dict") == T.True_
        out = {"C01: returns iff data is an object with every required property, every present declared property conforming (or falling back), and no unexpected property": c.returned == conf}
        if c.is_return:
            arg = c.local_val("data")
            ctor = c.attr0(s, "constructor")
            strip = z3.And(disc != T.None_, c.dhas0(D, disc), z3.Not(c.dhas0(AA, disc)), z3.Not(td))
            out["C01/C03: the object is constructed from the datum itself, or from a fresh copy without the discriminator property"] = z3.And(
                c.result == CONSTRUCTED(ctor, arg),
                z3.If(
                    strip,
                    z3.And(c.fresh(arg), c.arr("dhas", arg) == z3.Store(c.arr0("dhas", D), disc, False), c.arr("dget", arg) == c.arr0("dget", D)),
                    arg == D,
                ),
            )
        if c.is_raise:
            e = c.exc
            ch = c.attr(e, "children")
            k = z3.Const("k", Val)
            unexpected = lambda kk: z3.And(z3.Not(td), c.dhas0(D, kk), z3.Not(c.dhas0(AA, kk)), kk != disc)  # noqa: E731
            out["C02: type error, or no own message and exactly one child per missing / rejected / unexpected property, under its alias"] = z3.If(
                z3.Not(shape),
                S.is_bad_type_error(c, e, z3.If(z3.Or(isinst(data, "dict"), z3.Not(isinst(data, "Discriminated"))), data, D), [K("dict")]),
                z3.And(
                    cls(e) == K("ValidationError"),
                    S.no_messages(c, e),
                    isinst(ch, "dict"),
                    T.forall([k], c.dhas(ch, k) == z3.Or(is_field_bad_key(F, D, k, n), unexpected(k)), patterns=[c.dhas(ch, k)]),
                    field_children(c, ch, F, D, n, c.attr0(s, "missing")),
                    T.forall([k], z3.Implies(unexpected(k), S.is_message_error(c, c.dget(ch, k), c.attr0(s, "unexpected"))), patterns=[c.dget(ch, k)]),
                ),
            )
        return out

    # -- loop over the declared fields
    def _inv0(self, c):
        s, data, F, AA, D, disc = self._terms(c)
        i = c.index
        errs = c.local_val("field_errors")
        cnt = c.local_int("fields_count")
        hasD = dhas0[D]
        k = z3.Const("k", Val)
        j = z3.Int("j")
        return [
            c.local_val("data") == D,
            isinst(D, "dict"),
            c.local_val("discriminator") == disc,
            cnt == T.card(pres(F, hasD, i)),
            T.forall([k], z3.Implies(pres(F, hasD, i)[k], z3.And(hasD[k], z3.Exists([j], z3.And(j >= 0, j < i, alias(F, j) == k)))), patterns=[pres(F, hasD, i)[k]]),
            z3.Or(errs == T.None_, z3.And(isinst(errs, "dict"), c.fresh(errs))),
            z3.Implies(errs == T.None_, T.forall([j], z3.Implies(z3.And(j >= 0, j < i), z3.Not(bad(F, D, j))), patterns=[fld(F, j)])),
            z3.Implies(
                errs != T.None_,
                z3.And(
                    c.dlen(errs) >= 1,
                    T.forall([k], c.dhas(errs, k) == is_field_bad_key(F, D, k, i), patterns=[c.dhas(errs, k)]),
                    field_children(c, errs, F, D, i, c.attr0(s, "missing")),
                    z3.Exists([j], z3.And(j >= 0, j < i, bad(F, D, j))),
                ),
            ),
        ]

    # -- loop over the keys that are not aliases
    def _inv1(self, c):
        s, data, F, AA, D, disc = self._terms(c)
        n = c.llen0(F)
        errs = c.local_val("field_errors")
        hd = c.local_val("has_discriminator")
        seen = c.seen
        k = z3.Const("k", Val)
        j = z3.Int("j")
        td = c.attr0(s, "typed_dict") == T.True_
        extra = lambda kk: z3.And(seen[kk], kk != disc)  # noqa: E731
        return [
            c.local_val("data") == D,
            isinst(D, "dict"),
            c.local_val("discriminator") == disc,
            z3.Not(td),
            cls(hd) == K("bool"),
            (hd == T.True_) == seen[disc],
            T.forall([k], z3.Implies(seen[k], z3.And(c.dhas0(D, k), z3.Not(c.dhas0(AA, k)))), patterns=[seen[k]]),
            z3.Or(errs == T.None_, z3.And(isinst(errs, "dict"), c.fresh(errs))),
            z3.Implies(
                errs == T.None_,
                z3.And(T.forall([j], z3.Implies(z3.And(j >= 0, j < n), z3.Not(bad(F, D, j))), patterns=[fld(F, j)]), T.forall([k], z3.Implies(seen[k], k == disc), patterns=[seen[k]])),
            ),
            z3.Implies(
                errs != T.None_,
                z3.And(
                    c.dlen(errs) >= 1,
                    T.forall([k], c.dhas(errs, k) == z3.Or(is_field_bad_key(F, D, k, n), extra(k)), patterns=[c.dhas(errs, k)]),
                    field_children(c, errs, F, D, n, c.attr0(s, "missing")),
                    T.forall([k], z3.Implies(extra(k), S.is_message_error(c, c.dget(errs, k), c.attr0(s, "unexpected"))), patterns=[c.dget(errs, k), seen[k]]),
                    z3.Or(z3.Exists([j], z3.And(j >= 0, j < n, bad(F, D, j))), z3.Exists([k], extra(k))),
                ),
            ),
        ]

    loops = {0: "_inv0", 1: "_inv1"}


# ---------------------------------------------------------------------------------------------
# ObjectMethod.deserialize, configuration 1: no aggregate (flattened / pattern / additional)
# field and no validator -- the general object node on plain declared fields (appendix A.1)


def req_by(F, j):
    return A("required_by")[fld(F, j)]


def name_(F, j):
    return A("name")[fld(F, j)]


def dep_required(F, D, j):
    k = z3.Const("kq", Val)
    rb = req_by(F, j)
    return z3.And(rb != T.None_, z3.Exists([k], z3.And(dhas0[rb][k], dhas0[D][k])))


def bad2(F, D, j):
    a = alias(F, j)
    return z3.If(dhas0[D][a], z3.And(z3.Not(T.acc(meth(F, j), dget0[D][a])), z3.Or(req(F, j), z3.Not(fbd(F, j)))), z3.Or(req(F, j), dep_required(F, D, j)))


def is_field_bad_key2(F, D, k, upto):
    j = z3.Int("jb")
    return z3.Exists([j], z3.And(j >= 0, j < upto, alias(F, j) == k, bad2(F, D, j)))


def one_message_error(c, e):
    m, ch = c.attr(e, "messages"), c.attr(e, "children")
    return z3.And(cls(e) == K("ValidationError"), isinst(m, "list"), c.llen(m) == 1, isinst(ch, "dict"), c.dlen(ch) == 0, c.alloc(e), c.alloc(m), c.alloc(ch))


def field_children2(c, ch, F, D, upto, missing, apart=()):
    """`apart`: dicts of this activation the nested (empty) children dicts are distinct from"""
    j = z3.Int("j")
    a = lambda jj: alias(F, jj)  # noqa: E731
    sep = lambda e: z3.And(*[c.attr(e, "children") != o for o in apart]) if apart else z3.BoolVal(True)  # noqa: E731
    return T.forall(
        [j],
        z3.Implies(
            z3.And(j >= 0, j < upto, bad2(F, D, j)),
            z3.And(
                c.dhas(ch, a(j)),
                z3.If(
                    dhas0[D][a(j)],
                    c.dget(ch, a(j)) == T.err(meth(F, j), dget0[D][a(j)]),
                    z3.And(z3.If(req(F, j), S.is_message_error(c, c.dget(ch, a(j)), missing), one_message_error(c, c.dget(ch, a(j)))), sep(c.dget(ch, a(j)))),
                ),
            ),
        ),
        patterns=[fld(F, j)],
    )


def values_ok(c, values, F, D, upto):
    """values = { name_j : img(m_j, D[alias_j]) | j < upto, alias_j in D, accepted }"""
    j = z3.Int("j")
    k = z3.Const("k", Val)
    got = lambda jj: z3.And(dhas0[D][alias(F, jj)], T.acc(meth(F, jj), dget0[D][alias(F, jj)]))  # noqa: E731
    return z3.And(
        T.forall([j], z3.Implies(z3.And(j >= 0, j < upto, got(j)), z3.And(c.dhas(values, name_(F, j)), c.dget(values, name_(F, j)) == T.img(meth(F, j), dget0[D][alias(F, j)]))), patterns=[fld(F, j)]),
        T.forall([k], z3.Implies(c.dhas(values, k), z3.Exists([j], z3.And(j >= 0, j < upto, name_(F, j) == k, got(j)))), patterns=[c.dhas(values, k)]),
    )


@contract(f"{M}:ObjectMethod.deserialize#plain-fields", props=["C01", "C02", "C03", "C13"])
class ObjectPlainDeserialize:
    kinds = {
        "data": "dict",
        "self.fields": "tuple",
        "self.all_aliases": "set",
        "data.keys() - self.all_aliases": "set",
        "values": "dict",
        "err.messages": "list",
        "field.required_by": "set",
    }
    raises = ["ValidationError"]
    int_vars = ["fields_count"]
    str_concat = True
    shards = 16

    def _terms(self, c):
        s, data = c.self, c.data
        F, AA = c.attr0(s, "fields"), c.attr0(s, "all_aliases")
        isd = isinst(data, "dict")
        D = z3.If(isd, data, c.attr0(data, "data"))
        disc = z3.If(isd, T.None_, c.attr0(data, "discriminator"))
        return s, data, F, AA, D, disc

    def requires(self, c):
        s, data, F, AA, D, disc = self._terms(c)
        j, i = z3.Int("j"), z3.Int("i")
        k = z3.Const("k", Val)
        n = c.llen0(F)
        boolv = lambda v: cls(v) == K("bool")  # noqa: E731
        rb = lambda jj: req_by(F, jj)  # noqa: E731
        return [
            isinst(s, "ObjectMethod"),
            # this configuration: no aggregate field, no validator
            c.attr0(s, "aggregate_fields") == T.False_,
            isinst(c.attr0(s, "validators"), "tuple"),
            c.llen0(c.attr0(s, "validators")) == 0,
            cls(F) == K("tuple"),
            isinst(c.attr0(s, "constraints"), "tuple"),
            z3.Or(cls(AA) == K("set"), cls(AA) == K("frozenset")),
            boolv(c.attr0(s, "typed_dict")),
            boolv(c.attr0(s, "additional_properties")),
            isinst(c.attr0(s, "missing"), "str"),
            isinst(c.attr0(s, "unexpected"), "str"),
            T.forall(
                [j],
                z3.Implies(
                    z3.And(j >= 0, j < n),
                    z3.And(
                        isinst(alias(F, j), "str"),
                        isinst(name_(F, j), "str"),
                        boolv(A("required")[fld(F, j)]),
                        boolv(A("fall_back_on_default")[fld(F, j)]),
                        z3.Or(rb(j) == T.None_, cls(rb(j)) == K("set"), cls(rb(j)) == K("frozenset")),
                    ),
                ),
                patterns=[fld(F, j)],
            ),
            T.forall([i, j], z3.Implies(z3.And(i >= 0, i < j, j < n), z3.And(alias(F, i) != alias(F, j), name_(F, i) != name_(F, j))), patterns=[z3.MultiPattern(fld(F, i), fld(F, j))]),
            T.forall([k], c.dhas0(AA, k) == z3.Exists([j], z3.And(j >= 0, j < n, alias(F, j) == k)), patterns=[c.dhas0(AA, k)]),
            z3.Implies(isinst(data, "Discriminated"), isinst(c.attr0(data, "discriminator"), "str")),
            z3.Implies(isinst(D, "dict"), T.forall([k], z3.Implies(c.dhas0(D, k), isinst(k, "str")), patterns=[c.dhas0(D, k)])),
        ]

    def lemmas(self, c):
        s, data, F, AA, D, disc = self._terms(c)
        hasD = dhas0[D]
        return T.card_axioms() + [z3.Implies(isinst(D, "dict"), c.dlen0(D) == T.card(hasD)), T.card_subset_eq(pres(F, hasD, c.llen0(F)), hasD)]

    def _shape(self, c):
        s, data, F, AA, D, disc = self._terms(c)
        return z3.And(isinst(D, "dict"), z3.Or(isinst(data, "dict"), isinst(data, "Discriminated")))

    def ensures(self, c):
        s, data, F, AA, D, disc = self._terms(c)
        n = c.llen0(F)
        cs = c.attr0(s, "constraints")
        j = z3.Int("j")
        k = z3.Const("k", Val)
        shape = self._shape(c)
        addl = c.attr0(s, "additional_properties") == T.True_
        td = c.attr0(s, "typed_dict") == T.True_
        unexpected = lambda kk: z3.And(z3.Not(addl), c.dhas0(D, kk), z3.Not(c.dhas0(AA, kk)), kk != disc)  # noqa: E731
        conf = z3.And(
            shape,
            S.all_hold(cs, D),
            T.forall([j], z3.Implies(z3.And(j >= 0, j < n), z3.Not(bad2(F, D, j))), patterns=[fld(F, j)]),
            T.forall([k], z3.Not(unexpected(k)), patterns=[c.dhas0(D, k)]),
        )
        out = {"C01: returns iff data is an object satisfying its constraints, with every required (also dependent-required) property, every present declared property conforming or falling back, and no unexpected property unless allowed": c.returned == conf}
        if c.is_return:
            values = c.local_val("values")
            out["C01: the object is constructed from exactly the deserialized present fields (absent / fallen-back ones get their default from the constructor)"] = z3.And(
                c.result == CONSTRUCTED(c.attr0(s, "constructor"), values),
                c.fresh(values),
                z3.Implies(z3.Not(z3.And(addl, td)), values_ok(c, values, F, D, n)),
            )
        if c.is_raise:
            e = c.exc
            m, ch = c.attr(e, "messages"), c.attr(e, "children")
            out["C02: type error, or the failing constraints' messages and exactly one child per missing / dependent-required / rejected / unexpected property, under its alias"] = z3.If(
                z3.Not(shape),
                S.is_bad_type_error(c, e, z3.If(z3.Or(isinst(data, "dict"), z3.Not(isinst(data, "Discriminated"))), data, D), [K("dict")]),
                z3.And(
                    cls(e) == K("ValidationError"),
                    S.msgs_are_failures(c, m, cs, D, c.llen0(cs)),
                    isinst(ch, "dict"),
                    T.forall([k], c.dhas(ch, k) == z3.Or(is_field_bad_key2(F, D, k, n), unexpected(k)), patterns=[c.dhas(ch, k)]),
                    field_children2(c, ch, F, D, n, c.attr0(s, "missing")),
                    T.forall([k], z3.Implies(unexpected(k), S.is_message_error(c, c.dget(ch, k), c.attr0(s, "unexpected"))), patterns=[c.dget(ch, k)]),
                ),
            )
        return out

    def _common(self, c):
        s, data, F, AA, D, disc = self._terms(c)
        cs = c.attr0(s, "constraints")
        errors = c.local_val("errors")
        values = c.local_val("values")
        return [
            c.local_val("data") == D,
            isinst(D, "dict"),
            c.local_val("discriminator") == disc,
            # `errors`: None iff every object constraint holds, else a fresh list of the failures
            z3.If(S.all_hold(cs, D), z3.And(errors == T.None_, S.nfail(cs, D, c.llen0(cs)) == 0), z3.And(isinst(errors, "list"), c.fresh(errors), c.llen(errors) >= 1, S.msgs_are_failures(c, errors, cs, D, c.llen0(cs)))),
            cls(values) == K("dict"),
            c.fresh(values),
        ]

    def _inv0(self, c):
        s, data, F, AA, D, disc = self._terms(c)
        i = c.index
        errs = c.local_val("field_errors")
        values = c.local_val("values")
        cnt = c.local_int("fields_count")
        hasD = dhas0[D]
        k = z3.Const("k", Val)
        j = z3.Int("j")
        return self._common(c) + [
            cnt == T.card(pres(F, hasD, i)),
            T.forall([k], z3.Implies(pres(F, hasD, i)[k], z3.And(hasD[k], z3.Exists([j], z3.And(j >= 0, j < i, alias(F, j) == k)))), patterns=[pres(F, hasD, i)[k]]),
            values_ok(c, values, F, D, i),
            errs != values,
            z3.Or(errs == T.None_, z3.And(isinst(errs, "dict"), c.fresh(errs))),
            z3.Implies(errs == T.None_, T.forall([j], z3.Implies(z3.And(j >= 0, j < i), z3.Not(bad2(F, D, j))), patterns=[fld(F, j)])),
            z3.Implies(
                errs != T.None_,
                z3.And(c.dlen(errs) >= 1, T.forall([k], c.dhas(errs, k) == is_field_bad_key2(F, D, k, i), patterns=[c.dhas(errs, k)]), field_children2(c, errs, F, D, i, c.attr0(s, "missing"), apart=[values]), z3.Exists([j], z3.And(j >= 0, j < i, bad2(F, D, j)))),
            ),
        ]

    def _inv_unexpected(self, c):
        """the loop recording unexpected properties (additional properties not allowed)"""
        s, data, F, AA, D, disc = self._terms(c)
        n = c.llen0(F)
        errs = c.local_val("field_errors")
        values = c.local_val("values")
        seen = c.seen
        k = z3.Const("k", Val)
        j = z3.Int("j")
        addl = c.attr0(s, "additional_properties") == T.True_
        extra = lambda kk: z3.And(seen[kk], kk != disc)  # noqa: E731
        return self._common(c) + [
            z3.Not(addl),
            values_ok(c, values, F, D, n),
            errs != values,
            T.forall([k], z3.Implies(seen[k], z3.And(c.dhas0(D, k), z3.Not(c.dhas0(AA, k)))), patterns=[seen[k]]),
            z3.Or(errs == T.None_, z3.And(isinst(errs, "dict"), c.fresh(errs))),
            z3.Implies(errs == T.None_, z3.And(T.forall([j], z3.Implies(z3.And(j >= 0, j < n), z3.Not(bad2(F, D, j))), patterns=[fld(F, j)]), T.forall([k], z3.Implies(seen[k], k == disc), patterns=[seen[k]]))),
            z3.Implies(
                errs != T.None_,
                z3.And(
                    c.dlen(errs) >= 1,
                    T.forall([k], c.dhas(errs, k) == z3.Or(is_field_bad_key2(F, D, k, n), extra(k)), patterns=[c.dhas(errs, k)]),
                    field_children2(c, errs, F, D, n, c.attr0(s, "missing"), apart=[values]),
                    T.forall([k], z3.Implies(extra(k), z3.And(S.is_message_error(c, c.dget(errs, k), c.attr0(s, "unexpected")), c.attr(c.dget(errs, k), "children") != values)), patterns=[c.dget(errs, k), seen[k]]),
                    z3.Or(z3.Exists([j], z3.And(j >= 0, j < n, bad2(F, D, j))), z3.Exists([k], extra(k))),
                ),
            ),
        ]

    def _inv_extras(self, c):
        """the loop copying the additional properties of a TypedDict (additional properties allowed)"""
        s, data, F, AA, D, disc = self._terms(c)
        n = c.llen0(F)
        errs = c.local_val("field_errors")
        k = z3.Const("k", Val)
        j = z3.Int("j")
        addl = c.attr0(s, "additional_properties") == T.True_
        td = c.attr0(s, "typed_dict") == T.True_
        return self._common(c) + [
            addl,
            td,
            errs != c.local_val("values"),
            z3.Or(errs == T.None_, z3.And(isinst(errs, "dict"), c.fresh(errs))),
            z3.Implies(errs == T.None_, T.forall([j], z3.Implies(z3.And(j >= 0, j < n), z3.Not(bad2(F, D, j))), patterns=[fld(F, j)])),
            z3.Implies(
                errs != T.None_,
                z3.And(c.dlen(errs) >= 1, T.forall([k], c.dhas(errs, k) == is_field_bad_key2(F, D, k, n), patterns=[c.dhas(errs, k)]), field_children2(c, errs, F, D, n, c.attr0(s, "missing"), apart=[c.local_val("values")]), z3.Exists([j], z3.And(j >= 0, j < n, bad2(F, D, j)))),
            ),
        ]

    # loop ordinals are positions in the source text of the whole function; only the loops
    # reachable in this configuration need an invariant: 0 = fields, 5 / 6 = the two loops of
    # the `elif len(data) != fields_count` branch
    loops = {0: "_inv0", 5: "_inv_unexpected", 6: "_inv_extras"}


# ---------------------------------------------------------------------------------------------
# ObjectMethod.deserialize, configuration 2: validators, no aggregate field, no InitVar --
# the gating of appendix A.3 (C10): which validators are handed to `validate`, on what, and when
# the object is constructed.  The structural part (loops 0, 5, 6) reuses the invariants of
# configuration 1.

from pyvc.calls import _args as _call_args  # noqa: E402
from pyvc.symexec import Heap as _Heap  # noqa: E402

VALIDATE_OK = z3.Function("validate_ok", Val, Val, T.B)  # validate(obj, validators) returns obj
VALIDATE_ERR = z3.Function("validate_err", Val, Val, Val)
MOCK = z3.Function("validator_mock", Val, Val, Val)


def _call_validate(ex, node, st):
    """validate(obj, validators, init, aliaser=...): external (apischema.validation.validators);
    returns obj or raises a ValidationError; the call is recorded in ghost state"""
    outs = []
    for s, k, vs in ex.eval_many(list(node.args) + [kw.value for kw in node.keywords], st):
        if k == "exc":
            outs.append((s, k, vs))
            continue
        obj, lst = ex.val_of(vs[0]), ex.val_of(vs[1])
        calls = list(s.ghost.get("validate_calls", []))
        calls.append((obj, lst, dict(s.heap)))
        s.ghost["validate_calls"] = calls
        ok = s.fork().assume(VALIDATE_OK(obj, lst))
        ko = s.fork().assume(z3.Not(VALIDATE_OK(obj, lst)))
        if ex.feasible(ok):
            outs.append((ok, "val", sv_val(obj)))
        if ex.feasible(ko):
            e = VALIDATE_ERR(obj, lst)
            ko.assume(cls(e) == K("ValidationError"), T.alloc0[e])
            outs.append((ko, "exc", e))
    return outs


def _call_mock(ex, node, st):
    outs = []
    for s, k, vs in ex.eval_many(node.args, st):
        if k == "exc":
            outs.append((s, k, vs))
            continue
        outs.append((s, "val", sv_val(MOCK(ex.val_of(vs[0]), ex.val_of(vs[1])))))
    return outs


def _call_construct(ex, node, st):
    outs = []
    for s, k, vs in ex.eval_many(node.args, st):
        if k == "exc":
            outs.append((s, k, vs))
            continue
        s.ghost["construct_calls"] = s.ghost.get("construct_calls", 0) + 1
        ctor = _Heap(ex, s).attr(ex.val_of(s.env["self"]), "constructor")
        outs.append((s, "val", sv_val(CONSTRUCTED(ctor, ex.val_of(vs[0])))))
    return outs


def deps(v):
    return A("dependencies")[v]


@contract(f"{M}:ObjectMethod.deserialize#validators-gating", props=["C10", "C03"])
class ObjectValidatorsDeserialize(ObjectPlainDeserialize):
    kinds = dict(
        ObjectPlainDeserialize.kinds,
        **{
            "self.validators": "tuple",
            "self.fields": "tuple",
            "invalid_names": "set",
            "self.post_init_modified": "set",
            "validators": "list",
            "field_errors": "dict",
            "aliases": "dict",
            "invalid_fields": "set",
            "v.dependencies": "set",
        },
    )
    call_overrides = {"validate": _call_validate, "ValidatorMock": _call_mock, "self.constructor.construct": _call_construct}
    shards = 16
    tier = "thorough"  # ~1950 obligations over 170 paths (2.5 min on 16 cores): not part of the quick tier

    def requires(self, c):
        s = c.self
        base = [r for r in ObjectPlainDeserialize.requires(self, c)]
        # replace "no validator" by "some validators, no InitVar parameter"
        V = c.attr0(s, "validators")
        j = z3.Int("j")
        pim = c.attr0(s, "post_init_modified")
        base = [r for r in base if "validators" not in str(r)[:4000] or "llen0" not in str(r)[:4000]]
        return base + [
            # the gating logic does not depend on how unexpected properties / object constraints are
            # handled (proved in configuration 1); fixing them keeps this proof to the gating paths
            c.attr0(s, "additional_properties") == T.True_,
            c.attr0(s, "typed_dict") == T.False_,
            c.llen0(c.attr0(s, "constraints")) == 0,
            isinst(V, "tuple"),
            c.llen0(V) >= 1,
            isinst(c.attr0(s, "init_defaults"), "tuple"),
            c.llen0(c.attr0(s, "init_defaults")) == 0,
            z3.Or(cls(pim) == K("set"), cls(pim) == K("frozenset")),
            T.forall([j], z3.Implies(z3.And(j >= 0, j < c.llen0(V)), z3.Or(cls(deps(c.lget0(V, j))) == K("set"), cls(deps(c.lget0(V, j))) == K("frozenset"))), patterns=[c.lget0(V, j)]),
        ]

    def ensures(self, c):
        s, data, F, AA, D, disc = self._terms(c)
        n = c.llen0(F)
        V = c.attr0(s, "validators")
        calls = c.st.ghost.get("validate_calls", [])
        nctor = c.st.ghost.get("construct_calls", 0)
        shape = self._shape(c)
        out = {}
        if not calls:
            out["C10: validate is not called only when the datum is not even an object"] = z3.Not(shape)
            return out
        obj, lst, heap_at_call = calls[-1]
        values = c.local_val("values")
        x = z3.Const("vx", Val)
        k = z3.Const("vk", Val)
        j = z3.Int("vj")
        in_V = lambda t: z3.Exists([j], z3.And(j >= 0, j < c.llen0(V), c.lget0(V, j) == t))  # noqa: E731
        llen_c, lget_c = heap_at_call.get("llen", T.heap0("llen")), heap_at_call.get("lget", T.heap0("lget"))
        dhas_c = heap_at_call.get("dhas", T.heap0("dhas"))
        in_lst = lambda t: z3.Exists([j], z3.And(j >= 0, j < llen_c[lst], lget_c[lst][j] == t))  # noqa: E731
        provided = lambda t: z3.Exists([k], z3.And(dhas0[deps(t)][k], dhas_c[values][k]))  # noqa: E731  -- depends on a field present in the datum
        errs = c.local_val("field_errors")
        has_error = z3.Or(z3.And(errs != T.None_, c.dlen(errs) != 0), z3.Not(S.all_hold(c.attr0(s, "constraints"), D)))
        invalid_name = lambda nm: z3.Exists([j], z3.And(j >= 0, j < n, name_(F, j) == nm, errs != T.None_, dhas_c[errs][alias(F, j)]))  # noqa: E731
        pim = c.attr0(s, "post_init_modified")
        blocked = lambda t: z3.Exists([k], z3.And(dhas0[deps(t)][k], z3.Or(dhas0[pim][k], invalid_name(k))))  # noqa: E731
        out["C10: validate is called exactly once"] = z3.BoolVal(len(calls) == 1)
        out["C10: a validator is handed to validate only if it is a validator of the class one of whose dependencies was provided (not defaulted)"] = T.forall(
            [x], z3.Implies(in_lst(x), z3.And(in_V(x), provided(x))), patterns=[in_V(x)]
        )
        if "invalid_fields" in c.st.env:
            # error path: the code's own intermediate sets are characterised one by one
            IF = c.local_val("invalid_fields")
            sel = c.local_val("validators")
            in_sel = lambda t: z3.Exists([j], z3.And(j >= 0, j < llen_c[sel], lget_c[sel][j] == t))  # noqa: E731
            meets_IF = lambda t: z3.Exists([k], z3.And(dhas0[deps(t)][k], dhas_c[IF][k]))  # noqa: E731
            out["C10: with a structural error the object is NOT constructed and the validators run on a partial mock of the deserialized fields"] = z3.And(
                z3.BoolVal(nctor == 0), obj == MOCK(c.attr0(c.attr0(s, "constructor"), "cls"), values), has_error
            )
            out["C10: the set of invalid fields is the post-init modified fields plus the NAMES of the fields whose alias carries an error"] = T.forall(
                [k], dhas_c[IF][k] == z3.Or(dhas0[pim][k], invalid_name(k)), patterns=[dhas_c[IF][k]]
            )
            out["C10: the candidate validators are validators of the class with a provided dependency"] = T.forall([x], z3.Implies(in_sel(x), z3.And(in_V(x), provided(x))), patterns=[in_V(x)])
            out["C10: every validator of the class with a provided dependency is a candidate"] = T.forall([x], z3.Implies(z3.And(in_V(x), provided(x)), in_sel(x)), patterns=[in_V(x)])
            out["C10: a validator is run only if it is a candidate none of whose dependencies is invalid"] = T.forall([x], z3.Implies(in_lst(x), z3.And(in_sel(x), z3.Not(meets_IF(x)))), patterns=[in_V(x)])
            out["C10: every candidate none of whose dependencies is invalid is run (unrelated invalid fields do not prevent it)"] = T.forall([x], z3.Implies(z3.And(in_sel(x), z3.Not(meets_IF(x))), in_lst(x)), patterns=[in_V(x)])
        out["C10: without structural error the object is constructed once from the deserialized fields and every validator with a provided dependency runs on it"] = z3.Implies(
            z3.Not(has_error),
            z3.And(z3.BoolVal(nctor == 1), obj == CONSTRUCTED(c.attr0(s, "constructor"), values), T.forall([x], z3.Implies(z3.And(in_V(x), provided(x)), in_lst(x)), patterns=[in_V(x)])),
        )
        if c.is_raise:
            out["C10: with a structural error the deserialization always fails (the validators' errors are merged into it)"] = z3.Implies(has_error, isinst(c.exc, "ValidationError"))
        if c.is_return:
            out["C10: a value is returned only without structural error and when validation succeeds"] = z3.And(z3.Not(has_error), VALIDATE_OK(obj, lst), c.result == obj)
        return out
