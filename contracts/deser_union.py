"""Layer-1 contracts of the union-shaped nodes (C13: accepts iff some alternative accepts,
image = image of an accepting alternative -- the first one for the sequential node) and of
the thin wrappers (RecMethod, TypeCheckMethod, CoercerMethod, conversions)."""
from __future__ import annotations

import z3

from pyvc import theory as T
from pyvc.calls import COERCE_ERR, COERCE_OK, COERCED
from pyvc.contracts import contract
from pyvc.theory import K, Val, cls, isinst

from . import spec as S

M = "apischema.deserialization.methods"


@contract(f"{M}:OptionalMethod.deserialize", props=["C01", "C02", "C03", "C13", "C14"])
class OptionalDeserialize:
    coercers = ["self.coercer"]
    raises = ["ValidationError"]
    exports = ["C13: returns iff the datum is null or the value alternative accepts it (or, under coercion, it coerces to null)", "C13: image is null, or the value alternative's image"]

    def requires(self, c):
        return [isinst(c.self, "OptionalMethod")]

    def ensures(self, c):
        s, d = c.self, c.data
        vm, cf = c.attr0(s, "value_method"), c.attr0(s, "coercer")
        coerced_none = z3.And(cf != T.None_, COERCE_OK(cf, K("NoneType"), d), COERCED(cf, K("NoneType"), d) == T.None_)
        out = {
            "C13: returns iff the datum is null or the value alternative accepts it (or, under coercion, it coerces to null)": c.returned == z3.Or(d == T.None_, T.acc(vm, d), coerced_none),
            "C14: coercion only widens": z3.Implies(z3.Or(d == T.None_, T.acc(vm, d)), c.returned),
        }
        if c.is_return:
            out["C13: image is null, or the value alternative's image"] = c.result == z3.If(d == T.None_, T.None_, z3.If(T.acc(vm, d), T.img(vm, d), T.None_))
        if c.is_raise:
            e = c.exc
            m, ch = c.attr(e, "messages"), c.attr(e, "children")
            e1 = T.err(vm, d)
            m1, ch1 = c.attr0(e1, "messages"), c.attr0(e1, "children")
            j = z3.Int("j")
            k = z3.Const("k", Val)
            merged = z3.And(
                cls(e) == K("ValidationError"),
                c.llen(m) == c.llen0(m1) + 1,
                T.forall([j], z3.Implies(z3.And(j >= 0, j < c.llen0(m1)), c.lget(m, j) == c.lget0(m1, j)), patterns=[c.lget0(m1, j)]),
                c.lget(m, c.llen0(m1)) == S.btmsg(K("NoneType"), cls(d)),
                T.forall([k], c.dhas(ch, k) == c.dhas0(ch1, k), patterns=[c.dhas(ch, k)]),
                T.forall([k], z3.Implies(c.dhas0(ch1, k), c.dget(ch, k) == c.dget0(ch1, k)), patterns=[c.dget(ch, k)]),
            )
            out["C02: the value alternative's error merged with the null type error (or the coercer's own rejection)"] = z3.Or(
                merged, z3.And(cf != T.None_, z3.Not(COERCE_OK(cf, K("NoneType"), d)), e == COERCE_ERR(cf, K("NoneType"), d))
            )
        return out


@contract(f"{M}:UnionMethod.deserialize", props=["C01", "C03", "C13"])
class UnionDeserialize:
    kinds = {"self.alt_methods": "tuple"}
    raises = ["ValidationError"]
    exports = ["C13: accepts iff some alternative accepts", "C13: image is the image of the first accepting alternative"]

    def requires(self, c):
        ms = c.attr0(c.self, "alt_methods")
        return [isinst(c.self, "UnionMethod"), isinst(ms, "tuple"), c.llen0(ms) >= 1]

    def ensures(self, c):
        ms, d = c.attr0(c.self, "alt_methods"), c.data
        n = c.llen0(ms)
        j, i = z3.Int("j"), z3.Int("i")
        some = z3.Exists([j], z3.And(j >= 0, j < n, T.acc(c.lget0(ms, j), d)))
        out = {"C13: accepts iff some alternative accepts": c.returned == some}
        if c.is_return:
            out["C13: image is the image of the first accepting alternative"] = z3.Exists(
                [j],
                z3.And(
                    j >= 0,
                    j < n,
                    T.acc(c.lget0(ms, j), d),
                    T.forall([i], z3.Implies(z3.And(i >= 0, i < j), z3.Not(T.acc(c.lget0(ms, i), d))), patterns=[c.lget0(ms, i)]),
                    c.result == T.img(c.lget0(ms, j), d),
                ),
            )
        if c.is_raise:
            out["C02: a ValidationError"] = isinst(c.exc, "ValidationError")
        return out

    def _inv(self, c):
        ms, d = c.attr0(c.self, "alt_methods"), c.data
        error = c.local_val("error")
        j = z3.Int("j")
        return [
            T.forall([j], z3.Implies(z3.And(j >= 0, j < c.index), z3.Not(T.acc(c.lget0(ms, j), d))), patterns=[c.lget0(ms, j)]),
            z3.Or(error == T.None_, isinst(error, "ValidationError")),
            (error == T.None_) == (c.index == 0),
        ]

    loops = {0: lambda c: UnionDeserialize._inv(None, c)}


@contract(f"{M}:UnionByTypeMethod.deserialize", props=["C01", "C03", "C13"])
class UnionByTypeDeserialize:
    kinds = {"self.method_by_cls": "dict"}
    raises = ["ValidationError"]
    exports = ["C13: the by-type shortcut accepts iff some alternative accepts (try-each-alternative semantics)", "C13: image is the image of an accepting alternative"]

    def requires(self, c):
        mbc = c.attr0(c.self, "method_by_cls")
        kw = z3.Const("kw", Val)
        return [isinst(c.self, "UnionByTypeMethod"), cls(mbc) == K("dict"), z3.Exists([kw], c.dhas0(mbc, kw))]

    def ensures(self, c):
        mbc, d = c.attr0(c.self, "method_by_cls"), c.data
        k = z3.Const("k", Val)
        some = z3.Exists([k], z3.And(c.dhas0(mbc, k), T.acc(c.dget0(mbc, k), d)))
        out = {"C13: the by-type shortcut accepts iff some alternative accepts (try-each-alternative semantics)": c.returned == some}
        if c.is_return:
            out["C13: image is the image of an accepting alternative"] = z3.Exists([k], z3.And(c.dhas0(mbc, k), T.acc(c.dget0(mbc, k), d), c.result == T.img(c.dget0(mbc, k), d)))
        if c.is_raise:
            out["C02: a ValidationError"] = isinst(c.exc, "ValidationError")
        return out

    def _inv_fallback(self, c):
        mbc, d = c.attr0(c.self, "method_by_cls"), c.data
        error = c.local_val("error")
        k = z3.Const("k", Val)
        kw = z3.Const("kw", Val)
        return [
            z3.Not(c.dhas0(mbc, cls(d))),
            T.forall([k], z3.Implies(c.seen[k], z3.Not(T.acc(c.dget0(mbc, k), d))), patterns=[c.seen[k]]),
            z3.Or(error == T.None_, isinst(error, "ValidationError")),
            (error == T.None_) == z3.Not(z3.Exists([kw], c.seen[kw])),
        ]

    def _inv_others(self, c):
        mbc, d = c.attr0(c.self, "method_by_cls"), c.data
        error = c.local_val("error")
        k = z3.Const("k", Val)
        return [
            c.dhas0(mbc, cls(d)),
            z3.Not(T.acc(c.dget0(mbc, cls(d)), d)),
            T.forall([k], z3.Implies(c.seen[k], z3.Not(T.acc(c.dget0(mbc, k), d))), patterns=[c.seen[k]]),
            isinst(error, "ValidationError"),
        ]

    loops = {0: lambda c: UnionByTypeDeserialize._inv_fallback(None, c), 1: lambda c: UnionByTypeDeserialize._inv_others(None, c)}


@contract(f"{M}:RecMethod.deserialize", props=["C01", "C03"])
class RecDeserialize:
    raises = ["ValidationError"]
    callable_attrs = ["lazy"]

    def requires(self, c):
        s = c.self
        return [isinst(s, "RecMethod"), z3.Or(c.attr0(s, "method") == T.None_, c.attr0(s, "method") == T.apply0(c.attr0(s, "lazy")))]

    def modifies(self, c):
        return [c.self]

    def ensures(self, c):
        m = T.apply0(c.attr0(c.self, "lazy"))
        out = {"C01: delegates to the lazily resolved method": c.returned == T.acc(m, c.data), "memoises the resolved method": c.attr(c.self, "method") == m}
        if c.is_return:
            out["image"] = c.result == T.img(m, c.data)
        if c.is_raise:
            out["error"] = c.exc == T.err(m, c.data)
        return out


@contract(f"{M}:TypeCheckMethod.deserialize", props=["C01", "C03", "C08"])
class TypeCheckDeserialize:
    raises = ["ValidationError"]
    exports = ["C08: an instance of the passed-through class is accepted as is, anything else goes to the fallback", "image"]

    def requires(self, c):
        return [isinst(c.self, "TypeCheckMethod")]

    def ensures(self, c):
        s, d = c.self, c.data
        exp, fb = c.attr0(s, "expected"), c.attr0(s, "fallback")
        inst = T.inst_rt(d, exp)
        out = {"C08: an instance of the passed-through class is accepted as is, anything else goes to the fallback": c.returned == z3.Or(inst, T.acc(fb, d))}
        if c.is_return:
            out["image"] = c.result == z3.If(inst, d, T.img(fb, d))
        if c.is_raise:
            out["error"] = c.exc == T.err(fb, d)
        return out


@contract(f"{M}:CoercerMethod.deserialize", props=["C03", "C14"])
class CoercerDeserialize:
    coercers = ["self.coercer"]
    raises = ["ValidationError"]

    def requires(self, c):
        return [isinst(c.self, "CoercerMethod")]

    def ensures(self, c):
        s, d = c.self, c.data
        cf, k, m = c.attr0(s, "coercer"), c.attr0(s, "cls"), c.attr0(s, "method")
        wrapped = isinst(d, "Discriminated")
        inner = c.attr0(d, "data")
        ok = COERCE_OK(cf, k, d)
        v = COERCED(cf, k, d)
        out = {
            "C14: the coerced value is still checked by the wrapped node (a wrong-typed result of a custom coercer is rejected)": z3.Implies(z3.Not(wrapped), c.returned == z3.And(ok, T.acc(m, v))),
            "C13/C14: for the internal wrapper of a discriminated union the coercer is applied to the wrapped datum": z3.Implies(z3.And(wrapped, c.returned), COERCE_OK(cf, k, inner)),
        }
        if c.is_return:
            out["image"] = z3.Implies(z3.Not(wrapped), c.result == T.img(m, v))
        if c.is_raise:
            out["error"] = z3.Implies(z3.Not(wrapped), c.exc == z3.If(ok, T.err(m, v), COERCE_ERR(cf, k, d)))
        return out
