"""Layer-1 contracts of the array-shaped nodes (C01, C02, C03): postconditions are the
statement's rules -- arrays for collections, every element conforms, constraints hold,
typed image, one error entry per rejected element at its index."""
from __future__ import annotations

import z3

from pyvc import theory as T
from pyvc.contracts import contract
from pyvc.theory import K, Val, cls, isinst

from . import spec as S

M = "apischema.deserialization.methods"


def _wf(c):
    """class invariant of a list-shaped node: constraints is a tuple"""
    return [isinst(c.attr0(c.self, "constraints"), "tuple")]


def _list_like_ensures(c, copy: bool, klass: str = "list"):
    self, data = c.self, c.data
    vm, cs = c.attr0(self, "value_method"), c.attr0(self, "constraints")
    n = c.llen0(data)
    j = z3.Int("j")
    conforms = z3.And(isinst(data, "list"), S.all_acc_upto(c, vm, data, n), S.all_hold(cs, data))
    out = {"C01: returns iff data is an array whose elements all conform and whose constraints hold": c.returned == conforms}
    if c.is_return:
        r = c.result
        if copy:
            out["C01: image is a list"] = cls(r) == K("list")
            out["C01: image items are the elements' images"] = z3.And(
                c.llen(r) == n,
                T.forall([j], z3.Implies(z3.And(j >= 0, j < n), c.lget(r, j) == T.img(vm, c.lget0(data, j))), patterns=[c.lget(r, j)]),
            )
            out["C03/C08: image is a fresh list (shares nothing with the input)"] = c.fresh(r)
        else:
            out["C08: check-only variant returns the input itself"] = r == data
    if c.is_raise:
        e = c.exc
        m, ch = c.attr(e, "messages"), c.attr(e, "children")
        out["C02: exact error (type error, or failing constraints' messages + one child per rejected element)"] = z3.If(
            isinst(data, "list"),
            z3.And(
                cls(e) == K("ValidationError"),
                S.msgs_are_failures(c, m, cs, data, c.llen0(cs)),
                isinst(ch, "dict"),
                S.seq_children(c, ch, vm, data, n),
            ),
            S.is_bad_type_error(c, e, data, [K("list")]),
        )
    return out


def _inv_errors(c, errs, vm, data, i):
    """accumulated children errors after i elements (None while every element was accepted)"""
    return [
        z3.Or(errs == T.None_, z3.And(isinst(errs, "dict"), c.fresh(errs))),
        z3.Implies(errs == T.None_, S.all_acc_upto(c, vm, data, i)),
        z3.Implies(errs != T.None_, z3.And(c.dlen(errs) >= 1, S.seq_children(c, errs, vm, data, i), S.some_rejected_upto(c, vm, data, i))),
    ]


@contract(f"{M}:ListMethod.deserialize", props=["C01", "C02", "C03"])
class ListMethodDeserialize:
    kinds = {"data": "list", "values": "list"}
    raises = ["ValidationError"]
    exports = ["C01: returns iff data is an array whose elements all conform and whose constraints hold", "C01: image is a list", "C01: image items are the elements' images"]

    def requires(self, c):
        return [isinst(c.self, "ListMethod")] + _wf(c)

    def ensures(self, c):
        return _list_like_ensures(c, copy=True)

    def _inv(self, c):
        vm = c.attr0(c.self, "value_method")
        data, i = c.data, c.index
        values, errs = c.local_val("values"), c.local_val("elt_errors")
        j = z3.Int("j")
        return [
            isinst(data, "list"),
            cls(values) == K("list"),
            c.fresh(values),
            c.llen(values) == c.llen0(data),
            T.forall(
                [j],
                z3.Implies(z3.And(j >= 0, j < i, T.acc(vm, c.lget0(data, j))), c.lget(values, j) == T.img(vm, c.lget0(data, j))),
                patterns=[c.lget(values, j)],
            ),
        ] + _inv_errors(c, errs, vm, data, i)

    loops = {0: lambda c: ListMethodDeserialize._inv(None, c)}


@contract(f"{M}:ListCheckOnlyMethod.deserialize", props=["C01", "C02", "C03", "C08"])
class ListCheckOnlyDeserialize:
    kinds = {"data": "list"}
    raises = ["ValidationError"]
    exports = ["C01: returns iff data is an array whose elements all conform and whose constraints hold", "C08: check-only variant returns the input itself"]

    def requires(self, c):
        return [isinst(c.self, "ListCheckOnlyMethod")] + _wf(c)

    def ensures(self, c):
        return _list_like_ensures(c, copy=False)

    def _inv(self, c):
        vm = c.attr0(c.self, "value_method")
        return [isinst(c.data, "list")] + _inv_errors(c, c.local_val("elt_errors"), vm, c.data, c.index)

    loops = {0: lambda c: ListCheckOnlyDeserialize._inv(None, c)}
