"""Layer-1 contracts of the serialization nodes (C04: collections as lists, mappings as
objects, conversions applied, union by the first alternative whose class matches; C13:
discriminator key added only when absent) for arbitrary children.

Abstract children: m.serialize(x, path) returns ser(m, x) when sok(m, x) (always, for
well-typed values) and otherwise raises the TypeCheckError serr(m, x) (check_type mode)."""
from __future__ import annotations

import z3

from pyvc import theory as T
from pyvc.calls import _args
from pyvc.contracts import contract, method_model
from pyvc.symexec import Heap, sv_val
from pyvc.theory import K, Val, cls, isinst

M = "apischema.serialization.methods"

ser = z3.Function("ser", Val, Val, Val)
sok = z3.Function("sok", Val, Val, T.B)
serr = z3.Function("serr", Val, Val, Val)
fb = z3.Function("fallback_result", Val, Val, Val)
fbok = z3.Function("fallback_ok", Val, Val, T.B)
fberr = z3.Function("fallback_err", Val, Val, Val)


@method_model("serialize")
def child_serialize(ex, node, st, recv):
    outs = []
    for s, k, vs in _args(ex, node, st):
        if k == "exc":
            outs.append((s, k, vs))
            continue
        x = ex.val_of(vs[0])
        ok = s.fork().assume(sok(recv, x))
        ko = s.fork().assume(z3.Not(sok(recv, x)))
        if ex.feasible(ok):
            outs.append((ok, "val", sv_val(ser(recv, x))))
        if ex.feasible(ko):
            e = serr(recv, x)
            ko.assume(cls(e) == K("TypeCheckError"), T.alloc0[e])
            outs.append((ko, "exc", e))
    return outs


@method_model("fall_back")
def fallback_fall_back(ex, node, st, recv):
    outs = []
    for s, k, vs in _args(ex, node, st):
        if k == "exc":
            outs.append((s, k, vs))
            continue
        x = ex.val_of(vs[0])
        ok = s.fork().assume(fbok(recv, x))
        ko = s.fork().assume(z3.Not(fbok(recv, x)))
        if ex.feasible(ok):
            outs.append((ok, "val", sv_val(fb(recv, x))))
        if ex.feasible(ko):
            e = fberr(recv, x)
            ko.assume(cls(e) == K("TypeCheckError"), T.alloc0[e])
            outs.append((ko, "exc", e))
    return outs


@contract(f"{M}:OptionalMethod.serialize", props=["C04", "C13"])
class OptionalSerialize:
    raises = ["TypeCheckError"]

    def requires(self, c):
        return []

    def ensures(self, c):
        vm, o = c.attr0(c.self, "value_method"), c.obj
        out = {"C13: None is serialized as null, anything else by the value alternative": c.returned == z3.Or(o == T.None_, sok(vm, o))}
        if c.is_return:
            out["image"] = c.result == z3.If(o == T.None_, T.None_, ser(vm, o))
        return out


@contract(f"{M}:ConversionMethod.serialize", props=["C04", "C12"])
class ConversionSerialize:
    callable_attrs = ["converter"]
    raises = ["TypeCheckError"]

    def requires(self, c):
        return []

    def ensures(self, c):
        s, o = c.self, c.obj
        f, m = c.attr0(s, "converter"), c.attr0(s, "method")
        out = {"C12: serialize(T, v) = serialize(U, g(v))": c.returned == sok(m, T.apply1(f, o))}
        if c.is_return:
            out["image"] = c.result == ser(m, T.apply1(f, o))
        return out


@contract(f"{M}:UnionAlternative.serialize", props=["C13"])
class UnionAlternativeSerialize:
    raises = ["TypeCheckError"]

    def requires(self, c):
        return []

    def ensures(self, c):
        m, o = c.attr0(c.self, "method"), c.obj
        out = {"delegates": c.returned == sok(m, o)}
        if c.is_return:
            out["image"] = c.result == ser(m, o)
        return out


@contract(f"{M}:UnionMethod.serialize", props=["C04", "C13"])
class UnionSerialize:
    kinds = {"self.alternatives": "tuple"}
    raises = ["TypeCheckError"]

    def requires(self, c):
        return [isinst(c.attr0(c.self, "alternatives"), "tuple")]

    def ensures(self, c):
        s, o = c.self, c.obj
        alts, fbk = c.attr0(s, "alternatives"), c.attr0(s, "fallback")
        n = c.llen0(alts)
        j, i = z3.Int("j"), z3.Int("i")
        alt = lambda t: c.lget0(alts, t)  # noqa: E731
        match = lambda t: z3.And(T.inst_rt(o, c.attr0(alt(t), "cls")), sok(alt(t), o))  # noqa: E731
        some = z3.Exists([j], z3.And(j >= 0, j < n, match(j)))
        out = {"C13: a value is serialized by an alternative whose class matches (and which succeeds), else by the fallback": c.returned == z3.Or(some, fbok(fbk, o))}
        if c.is_return:
            out["C13: ... the FIRST such alternative"] = z3.If(
                some,
                z3.Exists([j], z3.And(j >= 0, j < n, match(j), T.forall([i], z3.Implies(z3.And(i >= 0, i < j), z3.Not(match(i))), patterns=[c.lget0(alts, i)]), c.result == ser(alt(j), o))),
                c.result == fb(fbk, o),
            )
        return out

    def _inv(self, c):
        s, o = c.self, c.obj
        alts = c.attr0(s, "alternatives")
        j = z3.Int("j")
        alt = lambda t: c.lget0(alts, t)  # noqa: E731
        return [T.forall([j], z3.Implies(z3.And(j >= 0, j < c.index), z3.Not(z3.And(T.inst_rt(o, c.attr0(alt(j), "cls")), sok(alt(j), o)))), patterns=[c.lget0(alts, j)])]

    loops = {0: "_inv"}


@contract(f"{M}:CollectionMethod.serialize", props=["C04"])
class CollectionSerialize:
    kinds = {"obj": "seq"}
    raises = ["TypeCheckError"]

    def requires(self, c):
        # sequences; sets (whose iteration order is arbitrary) are covered by the bounded driver
        return [z3.Or(isinst(c.obj, "list"), isinst(c.obj, "tuple"))]

    def ensures(self, c):
        vm, o = c.attr0(c.self, "value_method"), c.obj
        n = c.llen0(o)
        j = z3.Int("j")
        out = {"C04: every element is serialized": c.returned == T.forall([j], z3.Implies(z3.And(j >= 0, j < n), sok(vm, c.lget0(o, j))), patterns=[c.lget0(o, j)])}
        if c.is_return:
            r = c.result
            out["C04: collections become fresh lists of the elements' images, in order"] = z3.And(
                cls(r) == K("list"), c.fresh(r), c.llen(r) == n, T.forall([j], z3.Implies(z3.And(j >= 0, j < n), c.lget(r, j) == ser(vm, c.lget0(o, j))), patterns=[c.lget(r, j)])
            )
        return out


@contract(f"{M}:MappingMethod.serialize", props=["C04"])
class MappingSerialize:
    kinds = {"obj": "dict"}
    raises = ["TypeCheckError"]

    def requires(self, c):
        return [isinst(c.obj, "dict")]

    def ensures(self, c):
        s, o = c.self, c.obj
        km, vm = c.attr0(s, "key_method"), c.attr0(s, "value_method")
        k = z3.Const("k", Val)
        x = z3.Const("x", Val)
        has = c.arr0("dhas", o)
        out = {"C04: every key and value is serialized": c.returned == T.forall([k], z3.Implies(has[k], z3.And(sok(km, k), sok(vm, c.dget0(o, k)))), patterns=[has[k]])}
        if c.is_return:
            r = c.result
            out["C04: mappings become fresh dicts from serialized keys to serialized values"] = z3.And(
                cls(r) == K("dict"),
                c.fresh(r),
                T.forall([k], z3.Implies(has[k], c.dhas(r, ser(km, k))), patterns=[has[k]]),
                T.forall([x], z3.Implies(c.dhas(r, x), z3.Exists([k], z3.And(has[k], x == ser(km, k), c.dget(r, x) == ser(vm, c.dget0(o, k))))), patterns=[c.dhas(r, x)]),
            )
        return out


@contract(f"{M}:TupleMethod.serialize", props=["C04"])
class TupleSerialize:
    kinds = {"self.elt_methods": "tuple", "obj": "tuple", "elts": "list"}
    raises = ["TypeCheckError"]

    def requires(self, c):
        ms = c.attr0(c.self, "elt_methods")
        return [isinst(ms, "tuple"), isinst(c.obj, "tuple"), c.llen0(c.obj) == c.llen0(ms)]

    def ensures(self, c):
        ms, o = c.attr0(c.self, "elt_methods"), c.obj
        n = c.llen0(ms)
        j = z3.Int("j")
        out = {"C04: every element is serialized by its own method": c.returned == T.forall([j], z3.Implies(z3.And(j >= 0, j < n), sok(c.lget0(ms, j), c.lget0(o, j))), patterns=[c.lget0(ms, j)])}
        if c.is_return:
            r = c.result
            out["C04: a tuple becomes a fresh list of the elements' images"] = z3.And(
                cls(r) == K("list"), c.fresh(r), c.llen(r) == n, T.forall([j], z3.Implies(z3.And(j >= 0, j < n), c.lget(r, j) == ser(c.lget0(ms, j), c.lget0(o, j))), patterns=[c.lget(r, j)])
            )
        return out

    def _inv(self, c):
        ms, o = c.attr0(c.self, "elt_methods"), c.obj
        elts = c.local_val("elts")
        j = z3.Int("j")
        return [
            cls(elts) == K("list"),
            c.fresh(elts),
            c.llen(elts) == c.llen0(ms),
            T.forall([j], z3.Implies(z3.And(j >= 0, j < c.index), z3.And(sok(c.lget0(ms, j), c.lget0(o, j)), c.lget(elts, j) == ser(c.lget0(ms, j), c.lget0(o, j)))), patterns=[c.lget(elts, j)]),
        ]

    loops = {0: "_inv"}


# --- object fields: the omission rule (appendix A.2) at the level of the compiled flags ---------
from pyvc.contracts import global_model, spec_axioms  # noqa: E402

UNDEFINED = z3.Const("G_Undefined", Val)
FIELDS_SET_ATTR = z3.Const("G_FIELDS_SET_ATTR", Val)


@global_model("apischema.types:Undefined")
def _g_undefined(ex):
    return sv_val(UNDEFINED)


@global_model("apischema.fields:FIELDS_SET_ATTR")
def _g_fsa(ex):
    return sv_val(FIELDS_SET_ATTR)


@spec_axioms
def _ser_axioms():
    return [UNDEFINED != T.None_, T.alloc0[UNDEFINED], z3.Not(isinst(UNDEFINED, "str")), cls(FIELDS_SET_ATTR) == K("str"), T.alloc0[FIELDS_SET_ATTR]]


def _flag(c, name):
    return c.attr0(c.self, name) == T.True_


def _bools(c, names):
    return [cls(c.attr0(c.self, n)) == K("bool") for n in names]


@contract(f"{M}:ComplexField.__post_init__", props=["C04"])
class ComplexFieldPostInit:
    raises: list = []

    def requires(self, c):
        return _bools(c, ["undefined", "skip_none", "skip_default"])

    def modifies(self, c):
        return [c.self]

    def ensures(self, c):
        s = c.self
        return {
            "C04: the field is marked skippable iff one of its omission conditions is compiled in": (c.attr(s, "skippable") == T.True_)
            == z3.Or(c.truthy(c.attr0(s, "skip_if")), _flag(c, "undefined"), _flag(c, "skip_none"), _flag(c, "skip_default")),
            "skippable is a bool": cls(c.attr(s, "skippable")) == K("bool"),
        }


@contract(f"{M}:ComplexField.update_result", props=["C04", "C07", "C15"])
class ComplexFieldUpdate:
    kinds = {"obj": "dict", "result": "dict", "getattr(obj, FIELDS_SET_ATTR)": "set", "self.method.serialize(value, self.alias)": "dict"}
    callable_attrs = ["skip_if"]
    raises = ["TypeCheckError"]

    def requires(self, c):
        s = c.self
        skip_if = c.attr0(s, "skip_if")
        fs = T.dynattr(c.obj, FIELDS_SET_ATTR)
        td = _flag(c, "typed_dict")
        return _bools(c, ["typed_dict", "required", "exclude_unset", "undefined", "skip_none", "skip_default", "skippable"]) + [
            isinst(c.p["result"], "dict"),
            z3.Or(c.attr0(s, "alias") == T.None_, isinst(c.attr0(s, "alias"), "str")),
            isinst(c.attr0(s, "name"), "str"),
            # class invariant established by __post_init__ (proved above)
            _flag(c, "skippable") == z3.Or(c.truthy0(skip_if), _flag(c, "undefined"), _flag(c, "skip_none"), _flag(c, "skip_default")),
            z3.Or(skip_if == T.None_, z3.Not(z3.Or(isinst(skip_if, "bool"), isinst(skip_if, "int"), isinst(skip_if, "list"), isinst(skip_if, "tuple"), isinst(skip_if, "dict"), isinst(skip_if, "set"), isinst(skip_if, "frozenset"), isinst(skip_if, "str")))),
            z3.Implies(skip_if != T.None_, T.truthy_other(skip_if)),  # a function object is truthy
            # well-typedness of the value being serialized: a TypedDict is a dict, an object with
            # unset-tracking carries its set of set fields
            z3.Implies(td, isinst(c.obj, "dict")),
            z3.Implies(z3.And(td, _flag(c, "required")), c.dhas0(c.obj, c.attr0(s, "name"))),
            z3.Implies(z3.And(z3.Not(td), _flag(c, "exclude_unset")), z3.Or(isinst(fs, "set"), isinst(fs, "frozenset"))),
            z3.Implies(c.attr0(s, "alias") == T.None_, T.forall([z3.Const("x", Val)], isinst(ser(c.attr0(s, "method"), z3.Const("x", Val)), "dict"), patterns=[ser(c.attr0(s, "method"), z3.Const("x", Val))])),
        ]

    def modifies(self, c):
        return [c.p["result"]]

    def ensures(self, c):
        s, obj, res = c.self, c.obj, c.p["result"]
        name, alias_, m = c.attr0(s, "name"), c.attr0(s, "alias"), c.attr0(s, "method")
        td = _flag(c, "typed_dict")
        fs = T.dynattr(obj, FIELDS_SET_ATTR)
        present = z3.If(td, z3.Or(_flag(c, "required"), c.dhas0(obj, name)), z3.Or(z3.Not(_flag(c, "exclude_unset")), c.dhas0(fs, name)))
        value = z3.If(td, c.dget0(obj, name), T.dynattr(obj, name))
        skip_if = c.attr0(s, "skip_if")
        omit = z3.Or(
            z3.And(skip_if != T.None_, c.truthy0(T.apply1(skip_if, value))),
            z3.And(_flag(c, "undefined"), value == UNDEFINED),
            z3.And(_flag(c, "skip_none"), value == T.None_),
            z3.And(_flag(c, "skip_default"), T.py_eq(value, c.attr0(s, "default_value"))),
        )
        emit = z3.And(present, z3.Not(omit))
        k = z3.Const("k", Val)
        out = {}
        if c.is_return:
            out["C04: the field is written under its alias exactly when it is present (required / given / set) and none of its omission conditions holds; nothing else changes"] = z3.Implies(
                alias_ != T.None_,
                z3.If(
                    emit,
                    z3.And(c.arr("dhas", res) == z3.Store(c.arr0("dhas", res), alias_, True), c.arr("dget", res) == z3.Store(c.arr0("dget", res), alias_, ser(m, value))),
                    z3.And(c.arr("dhas", res) == c.arr0("dhas", res), c.arr("dget", res) == c.arr0("dget", res)),
                ),
            )
            out["C04: a flattened field merges its serialized object into the parent, under the same omission rule"] = z3.Implies(
                alias_ == T.None_,
                z3.If(
                    emit,
                    T.forall([k], c.dhas(res, k) == z3.Or(c.dhas0(res, k), c.dhas0(ser(m, value), k)), patterns=[c.dhas(res, k)]),
                    z3.And(c.arr("dhas", res) == c.arr0("dhas", res), c.arr("dget", res) == c.arr0("dget", res)),
                ),
            )
        if c.is_raise:
            out["only when the value is emitted and its serialization fails (check_type)"] = z3.And(emit, z3.Not(sok(m, value)))
        return out


@contract(f"{M}:SerializedField.update_result", props=["C04"])
class SerializedFieldUpdate:
    kinds = {"result": "dict"}
    callable_attrs = ["func"]
    raises = ["TypeCheckError"]

    def requires(self, c):
        return _bools(c, ["undefined", "skip_none"]) + [isinst(c.p["result"], "dict"), isinst(c.attr0(c.self, "alias"), "str")]

    def modifies(self, c):
        return [c.p["result"]]

    def ensures(self, c):
        s, obj, res = c.self, c.obj, c.p["result"]
        alias_, m = c.attr0(s, "alias"), c.attr0(s, "method")
        value = T.apply1(c.attr0(s, "func"), obj)
        omit = z3.Or(z3.And(_flag(c, "undefined"), value == UNDEFINED), z3.And(_flag(c, "skip_none"), value == T.None_))
        out = {}
        if c.is_return:
            out["C04: a serialized method is included under its alias unless it returns Undefined (or None when excluded)"] = z3.If(
                omit,
                z3.And(c.arr("dhas", res) == c.arr0("dhas", res), c.arr("dget", res) == c.arr0("dget", res)),
                z3.And(c.arr("dhas", res) == z3.Store(c.arr0("dhas", res), alias_, True), c.arr("dget", res) == z3.Store(c.arr0("dget", res), alias_, ser(m, value))),
            )
        return out


@contract(f"{M}:SimpleField.update_result", props=["C04", "C11"])
class SimpleFieldUpdate:
    kinds = {"result": "dict"}
    raises = ["TypeCheckError"]

    def requires(self, c):
        return [isinst(c.p["result"], "dict"), isinst(c.attr0(c.self, "alias"), "str")]

    def modifies(self, c):
        return [c.p["result"]]

    def ensures(self, c):
        s, obj, res = c.self, c.obj, c.p["result"]
        out = {}
        if c.is_return:
            out["C04/C11: the field is always written, under its alias, from the attribute of its name"] = z3.And(
                c.arr("dhas", res) == z3.Store(c.arr0("dhas", res), c.attr0(s, "alias"), True),
                c.arr("dget", res) == z3.Store(c.arr0("dget", res), c.attr0(s, "alias"), ser(c.attr0(s, "method"), T.dynattr(obj, c.attr0(s, "name")))),
            )
        return out


@contract(f"{M}:IdentityField.update_result", props=["C04", "C11"])
class IdentityFieldUpdate:
    kinds = {"result": "dict"}
    raises: list = []

    def requires(self, c):
        return [isinst(c.p["result"], "dict"), isinst(c.attr0(c.self, "alias"), "str")]

    def modifies(self, c):
        return [c.p["result"]]

    def ensures(self, c):
        s, obj, res = c.self, c.obj, c.p["result"]
        return {
            "C04/C11: the attribute is written as is under the alias": z3.And(
                c.arr("dhas", res) == z3.Store(c.arr0("dhas", res), c.attr0(s, "alias"), True), c.arr("dget", res) == z3.Store(c.arr0("dget", res), c.attr0(s, "alias"), T.dynattr(obj, c.attr0(s, "name")))
            )
        }


# --- object nodes ---------------------------------------------------------------------------
upd_has = z3.Function("upd_has", Val, Val, T.ArrVB, T.ArrVB)
upd_get = z3.Function("upd_get", Val, Val, T.ArrVB, T.ArrVV, T.ArrVV)
upd_ok = z3.Function("upd_ok", Val, Val, T.ArrVB, T.ArrVV, T.B)
upd_err = z3.Function("upd_err", Val, Val, Val)


@method_model("update_result")
def field_update_result(ex, node, st, recv):
    """field.update_result(obj, result) for an arbitrary BaseField: rewrites the contents of
    `result` by the field's own effect function (each concrete field class is proved above)"""
    outs = []
    for s, k, vs in _args(ex, node, st):
        if k == "exc":
            outs.append((s, k, vs))
            continue
        obj, res = ex.val_of(vs[0]), ex.val_of(vs[1])
        h = Heap(ex, s)
        has, get = h.arr("dhas")[res], h.arr("dget")[res]
        ok = s.fork().assume(upd_ok(recv, obj, has, get))
        ko = s.fork().assume(z3.Not(upd_ok(recv, obj, has, get)))
        if ex.feasible(ok):
            ex.check_store_allowed(ok, res, node)
            ho = Heap(ex, ok)
            ho.set("dhas", z3.Store(ho.arr("dhas"), res, upd_has(recv, obj, has)))
            ho.set("dget", z3.Store(ho.arr("dget"), res, upd_get(recv, obj, has, get)))
            ho.set("dlen", z3.Store(ho.arr("dlen"), res, ex.fresh("ul", T.I)))
            outs.append((ok, "val", sv_val(T.None_)))
        if ex.feasible(ko):
            e = upd_err(recv, obj)
            ko.assume(cls(e) == K("TypeCheckError"), T.alloc0[e])
            outs.append((ko, "exc", e))
    return outs


_Fs, _o = z3.Consts("Fs o", Val)
_n = z3.Int("n")
lget0 = T.heap0("lget")
fold_has = z3.RecFunction("fold_has", Val, Val, T.I, T.ArrVB)
fold_get = z3.RecFunction("fold_get", Val, Val, T.I, T.ArrVV)
z3.RecAddDefinition(fold_has, [_Fs, _o, _n], z3.If(_n <= 0, z3.K(Val, False), upd_has(lget0[_Fs][_n - 1], _o, fold_has(_Fs, _o, _n - 1))))
z3.RecAddDefinition(fold_get, [_Fs, _o, _n], z3.If(_n <= 0, T.NOGET, upd_get(lget0[_Fs][_n - 1], _o, fold_has(_Fs, _o, _n - 1), fold_get(_Fs, _o, _n - 1))))


@contract(f"{M}:ObjectMethod.serialize", props=["C04", "C16"])
class ObjectSerialize:
    kinds = {"self.fields": "tuple", "result": "dict"}
    raises = ["TypeCheckError"]

    def requires(self, c):
        return [isinst(c.attr0(c.self, "fields"), "tuple")]

    def ensures(self, c):
        F, o = c.attr0(c.self, "fields"), c.obj
        n = c.llen0(F)
        out = {}
        if c.is_return:
            r = c.result
            out["C04/C16: the result is a fresh dict to which every field, in the compiled order, has applied its effect exactly once"] = z3.And(
                cls(r) == K("dict"), c.fresh(r), c.arr("dhas", r) == fold_has(F, o, n), c.arr("dget", r) == fold_get(F, o, n)
            )
        return out

    def _inv(self, c):
        F, o = c.attr0(c.self, "fields"), c.obj
        r = c.local_val("result")
        return [cls(r) == K("dict"), c.fresh(r), c.arr("dhas", r) == fold_has(F, o, c.index), c.arr("dget", r) == fold_get(F, o, c.index), c.index >= 0]

    loops = {0: "_inv"}


@contract(f"{M}:SimpleObjectMethod.serialize", props=["C04"])
class SimpleObjectSerialize:
    kinds = {"self.fields": "tuple"}
    raises: list = []

    def requires(self, c):
        F = c.attr0(c.self, "fields")
        j = z3.Int("j")
        return [isinst(F, "tuple"), T.forall([j], z3.Implies(z3.And(j >= 0, j < c.llen0(F)), isinst(c.lget0(F, j), "str")), patterns=[c.lget0(F, j)])]

    def ensures(self, c):
        F, o = c.attr0(c.self, "fields"), c.obj
        j = z3.Int("j")
        x = z3.Const("x", Val)
        r = c.result
        return {
            "C04: an object whose fields need no conversion becomes the dict of its attributes, under the field names": z3.And(
                cls(r) == K("dict"),
                c.fresh(r),
                T.forall([j], z3.Implies(z3.And(j >= 0, j < c.llen0(F)), c.dhas(r, c.lget0(F, j))), patterns=[c.lget0(F, j)]),
                T.forall([x], z3.Implies(c.dhas(r, x), z3.Exists([j], z3.And(j >= 0, j < c.llen0(F), x == c.lget0(F, j), c.dget(r, x) == T.dynattr(o, x)))), patterns=[c.dhas(r, x)]),
            )
        }


@contract(f"{M}:TypeCheckIdentityMethod.serialize", props=["C04", "C08"])
class TypeCheckIdentitySerialize:
    raises = ["TypeCheckError"]

    def requires(self, c):
        return []

    def ensures(self, c):
        s, o = c.self, c.obj
        inst = T.inst_rt(o, c.attr0(s, "expected"))
        out = {"C08: check_type on a well-typed value changes nothing": z3.Implies(inst, c.returned)}
        if c.is_return:
            out["image"] = c.result == z3.If(inst, o, fb(c.attr0(s, "fallback"), o))
        return out


@contract(f"{M}:WrapperMethod.serialize", props=["C04", "C11"])
class WrapperSerialize:
    callable_attrs = ["wrapped"]
    raises: list = []

    def requires(self, c):
        return []

    def ensures(self, c):
        return {"C11: the wrapped function (the dynamic aliaser for aliased strings) is applied": c.result == T.apply1(c.attr0(c.self, "wrapped"), c.obj)}


# --- discriminated alternative ----------------------------------------------------------------
ser_has = z3.Function("ser_has", Val, Val, T.ArrVB)
ser_get = z3.Function("ser_get", Val, Val, T.ArrVV)
ser_isdict = z3.Function("ser_isdict", Val, Val, T.B)


def _super_serialize_owned(ex, node, st):
    """super().serialize(obj, path) whose result, when it is an object, is a dict freshly built by
    the alternative's method (ObjectMethod.serialize, proved above, returns a fresh dict): the
    caller owns it and may add the discriminator property"""
    outs = []
    self_t = ex.val_of(st.env["self"])
    for s, k, vs in _args(ex, node, st):
        if k == "exc":
            outs.append((s, k, vs))
            continue
        m = Heap(ex, s).attr(self_t, "method")
        o = ex.val_of(vs[0])
        ko = s.fork().assume(z3.Not(sok(m, o)))
        if ex.feasible(ko):
            e = serr(m, o)
            ko.assume(cls(e) == K("TypeCheckError"), T.alloc0[e])
            outs.append((ko, "exc", e))
        s.assume(sok(m, o))
        d = s.fork().assume(ser_isdict(m, o))
        if ex.feasible(d):
            r = ex.new_dict(d, ser_has(m, o), ser_get(m, o), ex.fresh("sl", T.I), hint="serdict")
            outs.append((d, "val", sv_val(r)))
        nd = s.fork().assume(z3.Not(ser_isdict(m, o)))
        if ex.feasible(nd):
            r = ser(m, o)
            nd.assume(z3.Not(isinst(r, "dict")))
            outs.append((nd, "val", sv_val(r)))
    return outs


@contract(f"{M}:DiscriminatedAlternative.serialize", props=["C13", "C05"])
class DiscriminatedAlternativeSerialize:
    kinds = {"res": "dict"}
    call_overrides = {"super().serialize": _super_serialize_owned}
    raises = ["TypeCheckError"]

    def requires(self, c):
        return [isinst(c.attr0(c.self, "alias"), "str")]

    def ensures(self, c):
        s, o = c.self, c.obj
        m, alias_, key = c.attr0(s, "method"), c.attr0(s, "alias"), c.attr0(s, "key")
        out = {"delegates to the alternative": c.returned == sok(m, o)}
        if c.is_return:
            r = c.result
            k = z3.Const("k", Val)
            out["C13: the discriminator property is added to the serialized object only when the object does not already carry it (a declared discriminator field keeps its own value, so that the value round-trips)"] = z3.If(
                ser_isdict(m, o),
                z3.And(
                    c.dhas(r, alias_),
                    c.dget(r, alias_) == z3.If(ser_has(m, o)[alias_], ser_get(m, o)[alias_], key),
                    T.forall([k], z3.Implies(k != alias_, z3.And(c.dhas(r, k) == ser_has(m, o)[k], c.dget(r, k) == ser_get(m, o)[k])), patterns=[c.dhas(r, k)]),
                ),
                r == ser(m, o),
            )
        return out
