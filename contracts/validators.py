"""C10: apischema.validation.validators.validate -- which validators run, in which order, how the
run ends, and that it terminates.

Validator outcome model (user code): for a validator v and an object o exactly one of
  vok(v, o)                 -- v.validate(o) returns
  not vok and not vntd      -- raises the ValidationError verr(v, o)
  not vok and vntd(v, o)    -- raises a (fresh) NonTrivialDependency
holds; the outcome does not depend on the keyword parameters passed (this contract covers the
calls without init parameters: `kwargs is None`).

Ghost state: `g:ran` (the validators invoked so far), `gi:when` (the instant of the invocation;
the clock is `gi:when[CLOCK]`)."""
from __future__ import annotations

import z3

from pyvc import theory as T
from pyvc.contracts import contract, spec_axioms
from pyvc.symexec import Heap, sv_val
from pyvc.theory import K, Val, cls, isinst

VM = "apischema.validation.validators"
VE = "apischema.validation.errors"

VOK = z3.Function("vok", Val, Val, T.B)
VNTD = z3.Function("vntd", Val, Val, T.B)
VERR = z3.Function("verr", Val, Val, Val)
VALS = z3.Function("validators_of_class", Val, Val)
ALIAS_OBJ = z3.Function("get_alias_", Val, Val)
CLOCK = z3.Const("G_validation_clock", Val)
WL = z3.Function("validators_run_over", Val, Val, Val)  # the list validate(obj, validators) runs over


TRIG = z3.Function("trig_list_index", Val, T.I, T.B)  # always true: only there to be a trigger term


@spec_axioms
def _trig_axiom():
    L, k = z3.Const("tg_L", Val), z3.Int("tg_k")
    return [T.forall([L, k], TRIG(L, k), patterns=[TRIG(L, k)])]


@spec_axioms
def _wl_axioms():
    """definition of the list validate() runs over"""
    vs, o = z3.Consts("wl_vs wl_o", Val)
    return [
        T.forall([vs, o], z3.Implies(vs != T.None_, WL(vs, o) == vs), patterns=[WL(vs, o)]),
        T.forall([o], WL(T.None_, o) == VALS(cls(o)), patterns=[WL(T.None_, o)]),
    ]


def _run_validator(ex, node, st):
    if node.keywords:
        raise NotImplementedError
    outs = []
    for s, k, vs in ex.eval_many([node.func.value] + list(node.args), st):
        if k == "exc":
            outs.append((s, k, vs))
            continue
        v, obj = ex.val_of(vs[0]), ex.val_of(vs[1])
        h = Heap(ex, s)
        ex.oblige("C10: no validator is run twice", s, z3.Not(h.arr("g:ran")[v]), node, kind="pre")
        now = h.arr("gi:when")[CLOCK]
        h.set("g:ran", z3.Store(h.arr("g:ran"), v, True))
        h.set("gi:when", z3.Store(z3.Store(h.arr("gi:when"), v, now), CLOCK, now + 1))
        ok = s.fork().assume(VOK(v, obj))
        if ex.feasible(ok):
            outs.append((ok, "val", sv_val(T.None_)))
        bad = s.fork().assume(z3.Not(VOK(v, obj)), z3.Not(VNTD(v, obj)))
        e = VERR(v, obj)
        bad.assume(isinst(e, "ValidationError"), T.alloc0[e])
        if ex.feasible(bad):
            outs.append((bad, "exc", e))
        ntd = s.fork().assume(z3.Not(VOK(v, obj)), VNTD(v, obj))
        if ex.feasible(ntd):
            outs.append((ntd, "exc", ex.new_obj(ntd, K("NonTrivialDependency"), "exc")))
    return outs


def _get_validators(ex, node, st):
    outs = []
    for s, k, vs in ex.eval_many(node.args, st):
        outs.append((s, k, vs) if k == "exc" else (s, "val", sv_val(VALS(ex.val_of(vs[0])))))
    return outs


def _get_alias(ex, node, st):
    outs = []
    for s, k, vs in ex.eval_many(node.args, st):
        outs.append((s, k, vs) if k == "exc" else (s, "val", sv_val(ALIAS_OBJ(ex.val_of(vs[0])))))
    return outs


@contract(f"{VE}:apply_aliaser", props=["C10"])
class ApplyAliaser:
    """relocates the aliases yielded by a validator under the dynamic aliaser (recursive over the
    children, behind a dict comprehension-like loop): assumed at the call site of validate, checked
    at run time by drivers/external_names and drivers/validators_gating"""

    assumed = True
    raises: list = []

    def requires(self, c):
        return [isinst(c.p["error"], "ValidationError")]

    def modifies(self, c):
        return []

    def ensures(self, c):
        return {"a ValidationError": z3.And(isinst(c.result, "ValidationError"), c.result != T.None_)}


def well_formed_list(c, L, n, ran):
    """the validators of a list: Validator objects, pairwise distinct, none of them run yet"""
    j, j2 = z3.Int("wj"), z3.Int("wj2")
    return [
        T.forall([j], z3.Implies(z3.And(j >= 0, j < n), z3.And(isinst(c_lget(c, L, j), "Validator"), z3.Not(ran(c_lget(c, L, j))))), patterns=[c_lget(c, L, j)]),
        T.forall([j, j2], z3.Implies(z3.And(j >= 0, j < j2, j2 < n), c_lget(c, L, j) != c_lget(c, L, j2)), patterns=[z3.MultiPattern(c_lget(c, L, j), c_lget(c, L, j2))]),
    ]


def name_like(c, t):
    """a field name, or a field whose name is a (hashable) string"""
    is_field = z3.Or(isinst(t, "Field"), isinst(t, "ObjectField"))
    return z3.Or(z3.And(isinst(t, "str"), z3.Not(is_field), T.hashable(t)), z3.And(is_field, isinst(c.attr0(t, "name"), "str"), T.hashable(c.attr0(t, "name"))))


def c_lget(c, L, j):
    t = c.lget0(L, j)
    import os
    if os.environ.get("DBG"):
        print("c_lget:", type(c).__name__, t.sexpr()[:200])
    return t


def stops(c, v, obj):
    """v fails and discards fields: the loop hands the rest over to the recursive call"""
    return z3.And(z3.Not(VOK(v, obj)), c.truthy0(c.attr0(v, "discard")))


def no_stop_before(c, L, obj, t):
    q = z3.Int("nsb")
    return T.forall([q], z3.Implies(z3.And(q >= 0, q < t), z3.Not(stops(c, c.lget0(L, q), obj))), patterns=[c.lget0(L, q)])


def blocked(c, v, w):
    """a dependency of w is one of the fields discarded by v"""
    x = z3.Const("bx", Val)
    k = z3.Int("bk")
    disc = c.attr0(v, "discard")
    name = lambda t: z3.If(z3.Or(isinst(t, "Field"), isinst(t, "ObjectField")), c.attr0(t, "name"), t)  # noqa: E731
    return z3.Exists([x, k], z3.And(c.dhas0(c.attr0(w, "dependencies"), x), k >= 0, k < c.llen0(disc), x == name(c.lget0(disc, k))))


@contract(f"{VM}:validate", props=["C10"])
class Validate:
    raises = ["ValidationError", "NonTrivialDependency"]
    allow_star = True
    havoc_arrays = ["g:ran", "gi:when"]
    ordered_filter = True  # the generator handed to the recursive call keeps the list order
    shards = 8
    kinds = {
        "validators": "list",
        "validators[i + 1:]": "list",
        "validator.discard": "tuple",
        "v.dependencies": "set",
        "discarded": "set",
        "{aliaser(alias): err}": "dict",
    }
    call_overrides = {"validator.validate": _run_validator, "get_validators": _get_validators, "get_alias": _get_alias}
    assumptions = [
        "validator outcome model: v.validate(obj, ...) either returns, raises its ValidationError or raises NonTrivialDependency, as a function of (v, obj); the dynamic aliaser and get_alias(owner) are pure total",
        "validate() is verified for calls without init parameters (kwargs is None); with parameters only the arguments passed to v.validate differ",
    ]

    # -- the list the loop runs over -----------------------------------------------------------
    @staticmethod
    def _list(c):
        """(L, n): the validators argument, or the class validators when it is None"""
        L = WL(c.p["validators"], c.p["obj"])
        return L, c.llen0(L)

    def decreases(self, c):
        return self._list(c)[1]

    def requires(self, c):
        obj = c.p["obj"]
        L, n = self._list(c)
        ran = lambda v: c.arr0("g:ran", v)  # noqa: E731
        j = z3.Int("rj")
        k = z3.Int("rk")
        k_v = z3.Const("rkv", Val)
        vs = c.p["validators"]
        return [
            c.p["kwargs"] == T.None_,
            z3.Or(cls(L) == K("list"), cls(L) == K("tuple")),
            c.alloc0(L),
            *well_formed_list(c, L, n, ran),
            # class invariants of Validator objects
            T.forall(
                [j],
                z3.Implies(
                    z3.And(j >= 0, j < n),
                    z3.And(
                        cls(c.attr0(c.lget0(L, j), "dependencies")) == K("set"),
                        c.alloc0(c.lget0(L, j)),
                        c.alloc0(c.attr0(c.lget0(L, j), "dependencies")),
                        z3.Implies(c.attr0(c.lget0(L, j), "discard") != T.None_, c.alloc0(c.attr0(c.lget0(L, j), "discard"))),
                        z3.Or(c.attr0(c.lget0(L, j), "discard") == T.None_, cls(c.attr0(c.lget0(L, j), "discard")) == K("tuple")),
                        c.truthy0(c.attr0(c.lget0(L, j), "discard")) == z3.And(c.attr0(c.lget0(L, j), "discard") != T.None_, c.llen0(c.attr0(c.lget0(L, j), "discard")) > 0),
                    ),
                ),
                patterns=[c.lget0(L, j)],
            ),
            T.forall(
                [j, k],
                z3.Implies(z3.And(j >= 0, j < n, k >= 0, k < c.llen0(c.attr0(c.lget0(L, j), "discard"))), name_like(c, c.lget0(c.attr0(c.lget0(L, j), "discard"), k))),
                patterns=[c.lget0(c.attr0(c.lget0(L, j), "discard"), k)],
            ),
            c.arr0("gi:when", CLOCK) >= 0,
            # the ghost clock is not a validator
            T.forall([j], z3.Implies(z3.And(j >= 0, j < n), c.lget0(L, j) != CLOCK), patterns=[c.lget0(L, j)]),
            # Validator.field is None, a name or a field
            T.forall([j], z3.Implies(z3.And(j >= 0, j < n), z3.Or(c.attr0(c.lget0(L, j), "field") == T.None_, name_like(c, c.attr0(c.lget0(L, j), "field")))), patterns=[c.lget0(L, j)]),
            # the dynamic aliaser returns names
            T.forall([k_v], T.hashable(T.apply1(c.p["aliaser"], k_v)), patterns=[T.apply1(c.p["aliaser"], k_v)]),
        ]

    def modifies(self, c):
        return []

    def ensures(self, c):
        obj = c.p["obj"]
        L, n = self._list(c)
        ran, ran0 = (lambda v: c.arr("g:ran", v)), (lambda v: c.arr0("g:ran", v))
        when = lambda v: c.arr("gi:when", v)  # noqa: E731
        j, i, j2 = z3.Int("ej"), z3.Int("ei"), z3.Int("ej2")
        v = z3.Const("ev", Val)
        at = lambda t: c.lget0(L, t)  # noqa: E731
        nsb = lambda t: no_stop_before(c, L, obj, t)  # noqa: E731
        out = {
            "C10: only validators of the list are run": T.forall([v], z3.Implies(z3.And(ran(v), z3.Not(ran0(v))), z3.Exists([j], z3.And(j >= 0, j < n, v == at(j)))), patterns=[ran(v)]),
            "C10: what was run before stays run": T.forall([v], z3.Implies(ran0(v), ran(v)), patterns=[ran(v)]),
            "C10: the clock only advances": c.arr("gi:when", CLOCK) >= c.arr0("gi:when", CLOCK),
            "C10: the instants of validators not run by this call are untouched": T.forall(
                [v], z3.Implies(z3.And(v != CLOCK, z3.Or(ran0(v), z3.Not(ran(v)))), c.arr("gi:when", v) == c.arr0("gi:when", v)), patterns=[c.arr("gi:when", v)]
            ),
        }
        if c.is_return or (c.is_raise):
            finished = z3.BoolVal(True) if c.is_return else isinst(c.exc, "ValidationError")
            out["C10: every validator runs, in order, up to and including the first failing one that discards fields (unrelated failures do not stop the others)"] = z3.Implies(
                finished, z3.ForAll([j], z3.Implies(z3.And(TRIG(L, j), j >= 0, j < n, nsb(j)), ran(at(j))), patterns=[at(j), TRIG(L, j)])
            )
            out["C10: after a failing validator that discards fields, a later validator runs only if none of its dependencies is discarded"] = z3.Implies(
                finished,
                T.forall(
                    [i, j],
                    z3.Implies(z3.And(i >= 0, i < j, j < n, nsb(i), stops(c, at(i), obj), ran(at(j))), z3.Not(blocked(c, at(i), at(j)))),
                    patterns=[z3.MultiPattern(at(i), at(j))],
                ),
            )
            t = z3.Int("et")
            out["C10: after it, every later validator none of whose dependencies is discarded runs as well, up to the next failing validator that discards fields"] = z3.Implies(
                finished,
                T.forall(
                    [i, j],
                    z3.Implies(
                        z3.And(
                            i >= 0, i < j, j < n, nsb(i), stops(c, at(i), obj), z3.Not(blocked(c, at(i), at(j))),
                            T.forall([t], z3.Implies(z3.And(t > i, t < j, z3.Not(blocked(c, at(i), at(t)))), z3.Not(stops(c, at(t), obj))), patterns=[at(t)]),
                        ),
                        ran(at(j)),
                    ),
                    patterns=[z3.MultiPattern(at(i), at(j))],
                ),
            )
            out["C10: validators run in list order"] = z3.Implies(
                finished,
                T.forall([j, j2], z3.Implies(z3.And(j >= 0, j < j2, j2 < n, ran(at(j)), ran(at(j2))), when(at(j)) < when(at(j2))), patterns=[z3.MultiPattern(at(j), at(j2))]),
            )
            out["C10: the validators run by this call are run at instants of this call"] = z3.Implies(
                finished,
                T.forall([j], z3.Implies(z3.And(j >= 0, j < n, ran(at(j))), z3.And(when(at(j)) >= c.arr0("gi:when", CLOCK), when(at(j)) < c.arr("gi:when", CLOCK))), patterns=[at(j)]),
            )
        if c.is_return:
            out["C10: returns the object itself"] = c.result == obj
            out["C10: returns only when every validator that ran succeeded"] = T.forall([j], z3.Implies(z3.And(j >= 0, j < n, ran(at(j))), VOK(at(j), obj)), patterns=[at(j)])
        if c.is_raise:
            out["C10: rejects only when some validator that ran did not succeed"] = z3.Exists([j], z3.And(j >= 0, j < n, ran(at(j)), z3.Not(VOK(at(j), obj))))
            out["C10: the errors are raised as one ValidationError, unless a validator touched a field outside its declared dependencies (NonTrivialDependency is passed on)"] = z3.Or(
                z3.And(isinst(c.exc, "ValidationError"), c.exc != T.None_),
                z3.And(isinst(c.exc, "NonTrivialDependency"), z3.Exists([j], z3.And(j >= 0, j < n, ran(at(j)), VNTD(at(j), obj)))),
            )
        return out

    def steps(self, c):
        """exits through the recursive call (the current validator failed and discards fields)"""
        from pyvc.symexec import SidecarError

        try:
            discarded, i = c.local_val("discarded"), c.local_int("i")
            c.local_val("next_validators")
        except SidecarError:
            return []
        obj = c.p["obj"]
        L, n = self._list(c)
        at = lambda t: c.lget0(L, t)  # noqa: E731
        ran = lambda v: c.arr("g:ran", v)  # noqa: E731
        disc = c.attr0(at(i), "discard")
        name = lambda t: z3.If(z3.Or(isinst(t, "Field"), isinst(t, "ObjectField")), c.attr0(t, "name"), t)  # noqa: E731
        x, kk = z3.Const("sx", Val), z3.Const("skk", Val)
        k, j = z3.Int("sk"), z3.Int("sj")
        return [
            ("the discarded set holds the names of the discarded fields", T.forall([k], z3.Implies(z3.And(k >= 0, k < c.llen0(disc)), c.dhas(discarded, name(c.lget0(disc, k)))), patterns=[c.lget0(disc, k)])),
            (
                "a later validator that ran was handed over to the recursive call: none of its dependencies is in the discarded set",
                T.forall([j], z3.Implies(z3.And(j > i, j < n, ran(at(j))), z3.Not(z3.Exists([kk], z3.And(c.dhas0(c.attr0(at(j), "dependencies"), kk), c.dhas(discarded, kk))))), patterns=[at(j)]),
            ),
            ("the current validator is the first one that stops the loop", z3.And(i >= 0, i < n, stops(c, at(i), obj), no_stop_before(c, L, obj, i))),
            ("no later validator that ran depends on a field discarded by the current one", T.forall([j], z3.Implies(z3.And(j > i, j < n, ran(at(j))), z3.Not(blocked(c, at(i), at(j)))), patterns=[at(j)])),
            *self._handover_steps(c, i, n, L, obj),
            (
                "the first stopping validator is unique",
                T.forall(
                    [j],
                    z3.Implies(z3.And(j >= 0, j < n, stops(c, at(j), obj), no_stop_before(c, L, obj, j)), j == i),
                    patterns=[at(j)],
                ),
            ),
        ]

    def _handover_steps(self, c, i, n, L, obj):
        """what the list handed to the recursive call is, in terms of the caller's list"""
        lf = c.st.ghost.get("last_filtered")
        if lf is None:
            return []
        o, pos, inv, dom = lf
        nextv = c.local_val("next_validators")
        at = lambda t: c.lget0(L, t)  # noqa: E731
        ran = lambda v: c.arr("g:ran", v)  # noqa: E731
        k, t, j, q = z3.Int("hk"), z3.Int("ht"), z3.Int("hj"), z3.Int("hq")
        ln = c.llen(nextv)
        free = lambda u: z3.Not(blocked(c, at(i), at(u)))  # noqa: E731
        H = lambda u: T.forall([q], z3.Implies(z3.And(q > i, q < u, free(q)), z3.Not(stops(c, at(q), obj))), patterns=[at(q)])  # noqa: E731
        return [
            ("handed over = exactly the later validators none of whose dependencies is discarded", T.forall([t], z3.Implies(z3.And(t > i, t < n), dom(t) == free(t)), patterns=[at(t)])),
            (
                "the handed-over list is the subsequence of those validators, in order",
                T.forall([k], z3.Implies(z3.And(k >= 0, k < ln), z3.And(c.lget(nextv, k) == at(pos(k)), pos(k) > i, pos(k) < n, dom(pos(k)), inv(pos(k)) == k)), patterns=[c.lget(nextv, k)]),
            ),
            (
                "a later validator whose dependencies are kept, with no stopping validator among the kept ones before it, is run by the recursive call",
                z3.Implies(
                    z3.BoolVal(True) if c.is_return else isinst(c.exc, "ValidationError"),
                    T.forall([j], z3.Implies(z3.And(j > i, j < n, free(j), H(j), TRIG(nextv, inv(j))), ran(at(j))), patterns=[at(j)]),
                ),
            ),
        ]

    @staticmethod
    def _inv(c):
        obj = c.p["obj"]
        L = c.local_val("validators")
        n = c.llen(L)
        idx = c.index
        ran, ran0 = (lambda v: c.arr("g:ran", v)), (lambda v: c.arr0("g:ran", v))
        when = lambda v: c.arr("gi:when", v)  # noqa: E731
        now = c.arr("gi:when", CLOCK)
        error = c.local_val("error")
        j, j2 = z3.Int("ij"), z3.Int("ij2")
        v = z3.Const("iv", Val)
        at = lambda t: c.lget(L, t)  # noqa: E731
        L0, n0 = Validate._list(c)
        return [
            # the working list is (a copy of) the list of the contract
            n == n0,
            z3.Or(cls(L) == K("list"), cls(L) == K("tuple")),
            T.forall([j], z3.Implies(z3.And(j >= 0, j < n), at(j) == c.lget0(L0, j)), patterns=[at(j)]),
            T.forall([j], z3.Implies(z3.And(j >= 0, j < n), at(j) == c.lget0(L0, j)), patterns=[c.lget0(L0, j)]),
            # (restated on the working list, for the preconditions of the recursive call) pairwise distinct
            T.forall([j, j2], z3.Implies(z3.And(j >= 0, j < j2, j2 < n), at(j) != at(j2)), patterns=[z3.MultiPattern(at(j), at(j2))]),
            T.forall([j], z3.Implies(z3.And(j >= 0, j < idx), z3.And(ran(at(j)), z3.Not(stops(c, at(j), obj)), z3.Not(z3.And(z3.Not(VOK(at(j), obj)), VNTD(at(j), obj))))), patterns=[at(j)]),
            T.forall([j], z3.Implies(z3.And(j >= idx, j < n), z3.Not(ran(at(j)))), patterns=[at(j)]),
            T.forall([v], z3.Implies(z3.And(ran(v), z3.Not(ran0(v))), z3.Exists([j], z3.And(j >= 0, j < idx, v == at(j)))), patterns=[ran(v)]),
            T.forall([v], z3.Implies(ran0(v), ran(v)), patterns=[ran(v)]),
            z3.Or(error == T.None_, z3.And(isinst(error, "ValidationError"))),
            (error == T.None_) == T.forall([j], z3.Implies(z3.And(j >= 0, j < idx), VOK(at(j), obj)), patterns=[at(j)]),
            T.forall([j, j2], z3.Implies(z3.And(j >= 0, j < j2, j2 < idx), when(at(j)) < when(at(j2))), patterns=[z3.MultiPattern(at(j), at(j2))]),
            T.forall([j], z3.Implies(z3.And(j >= 0, j < idx), z3.And(when(at(j)) >= c.arr0("gi:when", CLOCK), when(at(j)) < now)), patterns=[at(j)]),
            now >= c.arr0("gi:when", CLOCK),
            T.forall([v], z3.Implies(z3.And(v != CLOCK, z3.Or(ran0(v), z3.Not(ran(v)))), c.arr("gi:when", v) == c.arr0("gi:when", v)), patterns=[c.arr("gi:when", v)]),
        ]

    loops = {0: lambda c: Validate._inv(c)}
