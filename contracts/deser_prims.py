"""Layer-1 contracts of the primitive nodes (C01: strict primitives, bool distinct from
numbers, integers allowed for float and mapped to a float) and their constrained variants.
Conformance is stated on the statement's domain (JSON-like data); on any other object the
nodes must still raise nothing but ValidationError (C03)."""
from __future__ import annotations

import z3

from pyvc import theory as T
from pyvc.calls import FLOAT_OVERFLOW, INT2FLOAT
from pyvc.contracts import contract
from pyvc.theory import K, Val, cls, isinst

from . import spec as S

M = "apischema.deserialization.methods"


def _prim(name, klass, method_cls):
    @contract(f"{M}:{method_cls}.deserialize", props=["C01", "C02", "C03", "C08"])
    class _C:
        raises = ["ValidationError"]
        exports = [f"C01: on JSON-like data, returns iff the datum is {name}", "C01/C08: the datum itself is returned"]

        def requires(self, c):
            return [isinst(c.self, method_cls)]

        def ensures(self, c):
            d = c.data
            out = {
                f"C01: on JSON-like data, returns iff the datum is {name}": z3.Implies(S.is_json_like(d), c.returned == (cls(d) == K(klass))),
            }
            if c.is_return:
                out["C01/C08: the datum itself is returned"] = c.result == d
                out[f"C01: whatever is returned is an instance of {klass}"] = isinst(d, klass) if klass != "int" else z3.And(isinst(d, "int"), z3.Not(isinst(d, "bool")))
            if c.is_raise:
                out["C02: the error is the type error for this class"] = S.is_bad_type_error(c, c.exc, d, [K(klass)])
            return out

    _C.__name__ = method_cls + "Deserialize"
    return _C


NoneC = _prim("null", "NoneType", "NoneMethod")
IntC = _prim("an integer (not a boolean)", "int", "IntMethod")
StrC = _prim("a string", "str", "StrMethod")
BoolC = _prim("a boolean", "bool", "BoolMethod")


@contract(f"{M}:FloatMethod.deserialize", props=["C01", "C02", "C03"])
class FloatDeserialize:
    raises = ["ValidationError"]
    exports = ["C01: on JSON-like data, returns iff the datum is a number (float, or an integer that fits a float), never a boolean", "C01: image is a float: the datum itself, or the float of the integer"]

    def requires(self, c):
        return [isinst(c.self, "FloatMethod")]

    def ensures(self, c):
        d = c.data
        out = {
            "C01: on JSON-like data, returns iff the datum is a number (float, or an integer that fits a float), never a boolean": z3.Implies(
                S.is_json_like(d), c.returned == z3.Or(cls(d) == K("float"), z3.And(cls(d) == K("int"), z3.Not(FLOAT_OVERFLOW(d))))
            ),
        }
        if c.is_return:
            out["C01: image is a float: the datum itself, or the float of the integer"] = z3.If(isinst(d, "float"), c.result == d, z3.And(c.result == INT2FLOAT(d), cls(c.result) == K("float")))
        if c.is_raise:
            out["C02: the error is the type error for number"] = S.is_bad_type_error(c, c.exc, d, [K("float")])
        return out


def _constrained(method_cls, base_cls, klass):
    @contract(f"{M}:{method_cls}.deserialize", props=["C01", "C02", "C03"])
    class _C:
        raises = ["ValidationError"]
        exports = ["C01: on JSON-like data, returns iff the datum has the class and every constraint holds of the (converted) value", "C01: image is the (converted) datum"]

        def requires(self, c):
            return [isinst(c.self, method_cls), isinst(c.attr0(c.self, "constraints"), "tuple")]

        def ensures(self, c):
            d = c.data
            cs = c.attr0(c.self, "constraints")
            out = {}
            if klass == "float":
                base_ok = z3.Or(cls(d) == K("float"), z3.And(cls(d) == K("int"), z3.Not(FLOAT_OVERFLOW(d))))
                v = z3.If(cls(d) == K("float"), d, INT2FLOAT(d))
            else:
                base_ok = cls(d) == K(klass)
                v = d
            out["C01: on JSON-like data, returns iff the datum has the class and every constraint holds of the (converted) value"] = z3.Implies(
                S.is_json_like(d), c.returned == z3.And(base_ok, S.all_hold(cs, v))
            )
            if c.is_return:
                out["C01: image is the (converted) datum"] = z3.Implies(S.is_json_like(d), c.result == v)
            if c.is_raise:
                e = c.exc
                out["C02: type error, or exactly the failing constraints' messages in order and no child"] = z3.Implies(
                    S.is_json_like(d),
                    z3.If(
                        base_ok,
                        z3.And(cls(e) == K("ValidationError"), S.msgs_are_failures(c, c.attr(e, "messages"), cs, v, c.llen0(cs)), c.dlen(c.attr(e, "children")) == 0),
                        S.is_bad_type_error(c, e, d, [K(klass)]),
                    ),
                )
            return out

    _C.__name__ = method_cls + "Deserialize"
    return _C


CInt = _constrained("ConstrainedIntMethod", "IntMethod", "int")
CFloat = _constrained("ConstrainedFloatMethod", "FloatMethod", "float")
CStr = _constrained("ConstrainedStrMethod", "StrMethod", "str")
