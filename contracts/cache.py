"""C09: the reset protocol.  Ghost set `g:cleared` = the lru caches cleared since the last
mutation of a configuration root; a mutation of a root empties it (everything may be stale),
`reset()` puts every registered cache back.  Invariant at the exit of every mutator:
every cache registered in `_cached` is cleared -- hence, by induction on the history, no
observation after any sequence of operations meets a stale cache."""
from __future__ import annotations

import ast

import z3

from pyvc import theory as T
from pyvc.calls import _args, call_contract
from pyvc.contracts import contract, global_model, method_model, spec_axioms
from pyvc.symexec import Heap, sv_val
from pyvc.theory import K, Val, cls, isinst

CACHED = z3.Const("G_cached", Val)  # the module-level list apischema.cache._cached
LRU = z3.Function("lru_wrapped", Val, Val)  # lru_cache()(func)


@global_model("apischema.cache:_cached")
def _g_cached(ex):
    return sv_val(CACHED)


@spec_axioms
def _axioms():
    f = z3.Const("f", Val)
    return [cls(CACHED) == K("list"), T.alloc0[CACHED], T.forall([f], T.alloc0[LRU(f)], patterns=[LRU(f)])]


def all_cleared(c):
    """every cache registered in _cached (now) is in the ghost set"""
    j = z3.Int("j")
    g = Heap(c.ex, c.st).arr("g:cleared")
    return T.forall([j], z3.Implies(z3.And(j >= 0, j < c.llen(CACHED)), g[c.lget(CACHED, j)]), patterns=[c.lget(CACHED, j)])


def all_cleared0(c):
    j = z3.Int("j")
    g = T.heap0("g:cleared")
    c.ex.touch_heap("g:cleared")
    return T.forall([j], z3.Implies(z3.And(j >= 0, j < c.llen0(CACHED)), g[c.lget0(CACHED, j)]), patterns=[c.lget0(CACHED, j)])


@method_model("cache_clear")
def cache_clear(ex, node, st, recv):
    h = Heap(ex, st)
    h.set("g:cleared", z3.Store(h.arr("g:cleared"), recv, True))
    return [(st, "val", sv_val(T.None_))]


def mutation(ex, st, o):
    """any store into a configuration root makes every cache potentially stale"""
    Heap(ex, st).set("g:cleared", z3.K(Val, False))


@contract("apischema.cache:reset", props=["C09"])
class Reset:
    kinds = {"_cached": "list"}
    raises: list = []
    writes = ["g:cleared"]
    check_frame = False

    def requires(self, c):
        return []

    def modifies(self, c):
        return []

    def ensures(self, c):
        return {"C09: every registered cache is cleared": all_cleared(c)}

    def _inv(self, c):
        j = z3.Int("j")
        g = Heap(c.ex, c.st).arr("g:cleared")
        return [T.forall([j], z3.Implies(z3.And(j >= 0, j < c.index), g[c.lget0(CACHED, j)]), patterns=[c.lget0(CACHED, j)]), c.index >= 0]

    loops = {0: "_inv"}


def _call_reset(ex, node, st):
    """`reset()` / `cache.reset()` at a call site: the callee contract, with the whole ghost set havocked"""
    callee = ex.registry.contract_for("apischema.cache:reset")
    h = Heap(ex, st)
    h.set("g:cleared", ex.fresh("cleared", T.ArrVB))
    ctx = type("C", (), {})()
    from pyvc.calls import CalleePostCtx
    from pyvc.symexec import Outcome

    post = CalleePostCtx(ex, st, {}, Outcome("return", st, sv_val(T.None_)), dict(st.heap))
    for g in callee.ensures(post).values():
        st.assume(g)
    ex.registry.note_use(ex.contract.target, callee.target)
    return [(st, "val", sv_val(T.None_))]


class _Mutator:
    """shared shape of the mutators of configuration roots"""

    raises = ["TypeError", "KeyError"]
    check_frame = False
    on_store = staticmethod(mutation)

    def requires(self, c):
        return [all_cleared0(c)]

    def ensures(self, c):
        return {"C09: no registered cache is left stale (reset() ran after the mutation)": all_cleared(c)}


@contract("apischema.cache:CacheAwareDict.__setitem__", props=["C09"])
class SetItem(_Mutator):
    kinds = {"self.wrapped": "dict"}
    call_overrides = {"reset": _call_reset}

    def requires(self, c):
        return [all_cleared0(c), isinst(c.attr0(c.self, "wrapped"), "dict"), c.attr0(c.self, "wrapped") != CACHED]

    def modifies(self, c):
        return [c.attr0(c.self, "wrapped")]


@contract("apischema.cache:CacheAwareDict.__delitem__", props=["C09"])
class DelItem(_Mutator):
    kinds = {"self.wrapped": "dict"}
    call_overrides = {"reset": _call_reset}

    def requires(self, c):
        return [all_cleared0(c), isinst(c.attr0(c.self, "wrapped"), "dict"), c.attr0(c.self, "wrapped") != CACHED]

    def modifies(self, c):
        return [c.attr0(c.self, "wrapped")]


def _super_setattr(ex, node, st):
    """super().__setattr__(name, value) on a class object: a store into the settings class"""
    outs = []
    for s, k, vs in _args(ex, node, st):
        if k == "exc":
            outs.append((s, k, vs))
            continue
        mutation(ex, s, None)
        outs.append((s, "val", sv_val(T.None_)))
    return outs


@contract("apischema.settings:ResetCache.__setattr__", props=["C09"])
class ResetCacheSetattr(_Mutator):
    raises: list = []
    call_overrides = {"super().__setattr__": _super_setattr, "cache.reset": _call_reset}

    def modifies(self, c):
        return [c.self]


@contract("apischema.cache:cache", props=["C09"])
class CacheDecorator:
    """registers the lru-wrapped function: _cached' = _cached ++ [result]"""

    kinds = {"_cached": "list"}
    raises: list = []
    check_frame = False

    def requires(self, c):
        return []

    def modifies(self, c):
        return [CACHED]

    def _lru(ex, node, st):
        outs = []
        for s, k, vs in ex.eval_many(node.args[1:], st):
            outs.append((s, k, vs) if k == "exc" else (s, "val", vs[0]))
        return outs

    def _lru_call(ex, node, st):
        # lru_cache()(func)
        outs = []
        for s, k, vs in ex.eval_many(node.args, st):
            outs.append((s, k, vs) if k == "exc" else (s, "val", sv_val(LRU(ex.val_of(vs[0])))))
        return outs

    call_overrides = {"cast": _lru, "lru_cache()": _lru_call}

    def ensures(self, c):
        n = c.llen0(CACHED)
        return {
            "C09: the wrapped function is registered for reset": z3.And(c.result == LRU(c.func), c.llen(CACHED) == n + 1, c.lget(CACHED, n) == c.result),
            "C09: earlier registrations are kept": c.arr("lget", CACHED) == z3.Store(c.arr0("lget", CACHED), n, c.result),
        }
