"""C18: the dialect rewrites of apischema/json_schema/versions.py are pure dictionary
rewrites: exact key mapping (which *is* the documented correspondence between the dialects),
target vocabulary, fresh result, input schema untouched."""
from __future__ import annotations

import z3

from pyvc import theory as T
from pyvc.contracts import contract
from pyvc.theory import K, Val, cls, isinst

MOD = "apischema.json_schema.versions"
S_ = T.strc


def _same_except(c, r, s, keys):
    k = z3.Const("k", Val)
    return T.forall([k], z3.Implies(z3.And(*[k != S_(x) for x in keys]), z3.And(c.dhas(r, k) == c.dhas0(s, k), z3.Implies(c.dhas0(s, k), c.dget(r, k) == c.dget0(s, k)))), patterns=[c.dhas(r, k)])


@contract(f"{MOD}:to_json_schema_2019_09", props=["C18"])
class To201909:
    kinds = {"result": "dict", "schema": "dict"}
    raises: list = []
    writes = ["dhas", "dget", "dlen"]

    def requires(self, c):
        return [isinst(c.schema, "dict")]

    def modifies(self, c):
        return []

    def allocates(self, c):
        return [("dict", c.result)]

    def ensures(self, c):
        r, s = c.result, c.schema
        pi, it, ai = S_("prefixItems"), S_("items"), S_("additionalItems")
        return {
            "C18: target vocabulary -- prefixItems does not survive": z3.Not(c.dhas(r, pi)),
            "C18: prefixItems becomes array-form items, the former items becomes additionalItems": z3.Implies(
                c.dhas0(s, pi),
                z3.And(
                    c.dhas(r, it),
                    c.dget(r, it) == c.dget0(s, pi),
                    z3.If(c.dhas0(s, it), z3.And(c.dhas(r, ai), c.dget(r, ai) == c.dget0(s, it)), c.dhas(r, ai) == c.dhas0(s, ai)),
                ),
            ),
            "C18: a schema without prefixItems is copied unchanged": z3.Implies(z3.Not(c.dhas0(s, pi)), z3.And(c.arr("dhas", r) == c.arr0("dhas", s), c.arr("dget", r) == c.arr0("dget", s))),
            "C18: every other keyword is kept as is": _same_except(c, r, s, ["prefixItems", "items", "additionalItems"]),
        }


@contract(f"{MOD}:isolate_ref", props=["C18"])
class IsolateRef:
    kinds = {"schema": "dict", "schema.setdefault('allOf', [])": "list"}
    raises: list = []
    writes = ["dhas", "dget", "dlen", "llen", "lget"]

    def requires(self, c):
        s = c.schema
        ao = S_("allOf")
        return [isinst(s, "dict"), z3.Implies(c.dhas0(s, ao), isinst(c.dget0(s, ao), "list"))]

    def modifies(self, c):
        s = c.schema
        ao = S_("allOf")
        return [s, (c.dget0(s, ao), c.dhas0(s, ao))]

    def ensures(self, c):
        s = c.schema
        ref, ao = S_("$ref"), S_("allOf")
        moved = z3.And(c.dhas0(s, ref), c.dlen0(s) > 1)
        k = z3.Const("k", Val)
        return {
            "C18: a $ref with sibling keywords is moved into allOf": z3.Implies(moved, z3.And(z3.Not(c.dhas(s, ref)), c.dhas(s, ao), isinst(c.dget(s, ao), "list"), c.llen(c.dget(s, ao)) >= 1)),
            "C18: otherwise the schema is untouched": z3.Implies(z3.Not(moved), z3.And(c.arr("dhas", s) == c.arr0("dhas", s), c.arr("dget", s) == c.arr0("dget", s))),
            "C18: other keywords are kept": T.forall([k], z3.Implies(z3.And(k != ref, k != ao), z3.And(c.dhas(s, k) == c.dhas0(s, k), c.dget(s, k) == c.dget0(s, k))), patterns=[c.dhas(s, k)]),
        }


@contract(f"{MOD}:to_json_schema_7", props=["C18"])
class To7:
    kinds = {"result": "dict", "schema": "dict", "result.pop('$defs')": "dict", "result.get('definitions', {})": "dict", "result.pop('dependentRequired')": "dict", "result.get('dependencies', {})": "dict"}
    raises: list = []

    def requires(self, c):
        s = c.schema
        isd = lambda key: z3.Implies(c.dhas0(s, S_(key)), isinst(c.dget0(s, S_(key)), "dict"))  # noqa: E731
        # builder output: definitions / dependencies are objects, allOf an array
        return [isinst(s, "dict"), isd("$defs"), isd("definitions"), isd("dependentRequired"), isd("dependencies"), z3.Implies(c.dhas0(s, S_("allOf")), isinst(c.dget0(s, S_("allOf")), "list"))]

    def modifies(self, c):
        s = c.schema
        return [(c.dget0(s, S_("allOf")), c.dhas0(s, S_("allOf")))]

    def ensures(self, c):
        r, s = c.result, c.schema
        out = {
            "C18: draft-07 vocabulary only ($defs, dependentRequired, prefixItems do not survive)": z3.And(z3.Not(c.dhas(r, S_("$defs"))), z3.Not(c.dhas(r, S_("dependentRequired"))), z3.Not(c.dhas(r, S_("prefixItems")))),
            "C18: $defs become definitions, dependentRequired becomes dependencies": z3.And(
                z3.Implies(c.dhas0(s, S_("$defs")), c.dhas(r, S_("definitions"))), z3.Implies(c.dhas0(s, S_("dependentRequired")), c.dhas(r, S_("dependencies")))
            ),
            "C18/C03: the result is a new object, the input schema is not the result": z3.And(c.fresh(r), r != s, c.arr("dhas", s) == c.arr0("dhas", s), c.arr("dget", s) == c.arr0("dget", s)),
        }
        return out
