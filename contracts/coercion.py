"""Contract of apischema.deserialization.coercion.coerce (C03: every failure becomes
bad_type; C14: the documented coercion table)."""
from __future__ import annotations

import ast

import z3

from pyvc import theory as T
from pyvc.calls import BUILTINS, LOWER, STR_OF, b_float_full, b_int
from pyvc.contracts import contract, global_model, spec_axioms
from pyvc.symexec import SV, sv_val
from pyvc.theory import K, Val, cls, isinst

from . import spec as S

MOD = "apischema.deserialization.coercion"

STR_TO_BOOL = z3.Const("G_STR_TO_BOOL", Val)
STR_NONE_VALUES = z3.Const("G_STR_NONE_VALUES", Val)
dhas0, dget0 = T.heap0("dhas"), T.heap0("dget")


@global_model(f"{MOD}:STR_TO_BOOL")
def _g1(ex):
    ex.touch_heap("dhas")
    return sv_val(STR_TO_BOOL)


@global_model(f"{MOD}:STR_NONE_VALUES")
def _g2(ex):
    return sv_val(STR_NONE_VALUES)


@spec_axioms
def _axioms():
    k = z3.Const("k", Val)
    return [
        cls(STR_TO_BOOL) == K("dict"),
        T.alloc0[STR_TO_BOOL],
        # the word table maps strings to booleans (its 14 entries are checked exhaustively, E)
        T.forall([k], z3.Implies(dhas0[STR_TO_BOOL][k], z3.And(cls(k) == K("str"), cls(dget0[STR_TO_BOOL][k]) == K("bool"))), patterns=[dhas0[STR_TO_BOOL][k]]),
        cls(STR_NONE_VALUES) == K("set"),
        T.alloc0[STR_NONE_VALUES],
        # STR_NONE_VALUES = {""}
        T.forall([k], dhas0[STR_NONE_VALUES][k] == (k == T.strc("")), patterns=[dhas0[STR_NONE_VALUES][k]]),
    ]


def _call_cls(ex, node, st):
    """`cls(data)` where cls is int or float (the branch condition guarantees it)"""
    c = ex.val_of(st.env["cls"])
    outs = []
    si = st.fork().assume(c == K("int"))
    if ex.feasible(si):
        outs.extend(b_int(ex, node, si))
    sf = st.fork().assume(c == K("float"))
    if ex.feasible(sf):
        outs.extend(b_float_full(ex, node, sf))
    so = st.fork().assume(c != K("int"), c != K("float"))
    if ex.feasible(so):
        ex.oblige("cls(data) is only reached for int / float", so, z3.BoolVal(False), node, kind="defined")
    return outs


@contract(f"{MOD}:coerce", props=["C03", "C14"])
class Coerce:
    kinds = {"STR_NONE_VALUES": "set", "STR_TO_BOOL": "dict"}
    call_overrides = {"cls": _call_cls}
    raises = ["ValidationError"]

    def requires(self, c):
        # Layer-2 fact: coercion targets are the JSON classes (`_factory(factory, cls)` call sites)
        return [S.is_json_class(c.cls)]

    def ensures(self, c):
        k, d = c.cls, c.data
        out = {}
        if c.is_return:
            r = c.result
            out["C14: the documented table"] = z3.If(
                k == K("NoneType"),
                z3.And(r == T.None_, z3.Or(d == T.None_, d == T.strc(""))),
                z3.If(
                    T.sub(cls(d), k),
                    r == d,
                    z3.If(
                        k == K("bool"),
                        z3.Or(z3.And(isinst(d, "str"), dhas0[STR_TO_BOOL][LOWER(d)], r == dget0[STR_TO_BOOL][LOWER(d)]), z3.And(isinst(d, "int"), r == z3.If(T.ival(d) != 0, T.True_, T.False_))),
                        z3.If(
                            z3.Or(k == K("int"), k == K("float")),
                            z3.And(
                                z3.Or(cls(r) == k, z3.Not(z3.Or(isinst(d, "str"), isinst(d, "int"), isinst(d, "float")))),
                                z3.Not(z3.Or(d == T.None_, isinst(d, "list"), isinst(d, "dict"))),
                                # int() / float() between strings and numbers: a boolean is not a number
                                z3.Not(isinst(d, "bool")),
                            ),
                            z3.And(k == K("str"), z3.Or(isinst(d, "int"), isinst(d, "float")), z3.Not(isinst(d, "bool")), r == STR_OF(d)),
                        ),
                    ),
                ),
            )
        if c.is_raise:
            out["C03: every failure is the type error for the target class"] = S.is_bad_type_error(c, c.exc, d, [k])
            out["C14: data of the target class is never refused"] = z3.Or(k == K("NoneType"), z3.Not(T.sub(cls(d), k)))
        return out
