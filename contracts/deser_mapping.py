"""Layer-1 contracts of the mapping nodes, and the (assumed, B-checked) contract of merge_errors."""
from __future__ import annotations

import z3

from pyvc import theory as T
from pyvc.contracts import contract
from pyvc.theory import K, Val, cls, isinst

from . import spec as S

M = "apischema.deserialization.methods"


@contract("apischema.validation.errors:merge_errors", props=["C02"])
class MergeErrors:
    """merge(None, e) = e; otherwise a new error with the messages concatenated and the children
    merged key-wise (a key present on one side only keeps that side's child *object*)."""

    assumed = True  # body: dict comprehension over a key union + recursion behind @merge_opts; B-checked by the drivers
    raises: list = []
    writes = ["a:messages", "a:children", "llen", "lget", "dhas", "dget", "dlen"]

    def requires(self, c):
        ok = lambda e: z3.Or(e == T.None_, isinst(e, "ValidationError"))  # noqa: E731
        return [ok(c.err1), ok(c.err2)]

    def modifies(self, c):
        return []

    def allocates(self, c):
        both = z3.And(c.err1 != T.None_, c.err2 != T.None_)
        r = c.result
        return [("ValidationError", r, both), ("list", c.attr(r, "messages"), both), ("dict", c.attr(r, "children"), both)]

    def ensures(self, c):
        e1, e2, r = c.err1, c.err2, c.result
        both = z3.And(e1 != T.None_, e2 != T.None_)
        m, m1, m2 = c.attr(r, "messages"), c.attr0(e1, "messages"), c.attr0(e2, "messages")
        ch, ch1, ch2 = c.attr(r, "children"), c.attr0(e1, "children"), c.attr0(e2, "children")
        j = z3.Int("j")
        k = z3.Const("k", Val)
        return {
            "none-left": z3.Implies(e1 == T.None_, r == e2),
            "none-right": z3.Implies(z3.And(e1 != T.None_, e2 == T.None_), r == e1),
            "merged": z3.Implies(
                both,
                z3.And(
                    m != ch,
                    c.llen(m) == c.llen0(m1) + c.llen0(m2),
                    T.forall([j], z3.Implies(z3.And(j >= 0, j < c.llen0(m1)), c.lget(m, j) == c.lget0(m1, j)), patterns=[c.lget0(m1, j)]),
                    T.forall([j], z3.Implies(z3.And(j >= 0, j < c.llen0(m2)), c.lget(m, c.llen0(m1) + j) == c.lget0(m2, j)), patterns=[c.lget0(m2, j)]),
                    T.forall([k], c.dhas(ch, k) == z3.Or(c.dhas0(ch1, k), c.dhas0(ch2, k)), patterns=[c.dhas(ch, k)]),
                    T.forall([k], z3.Implies(z3.And(c.dhas0(ch1, k), z3.Not(c.dhas0(ch2, k))), c.dget(ch, k) == c.dget0(ch1, k)), patterns=[c.dget(ch, k)]),
                    T.forall([k], z3.Implies(z3.And(c.dhas0(ch2, k), z3.Not(c.dhas0(ch1, k))), c.dget(ch, k) == c.dget0(ch2, k)), patterns=[c.dget(ch, k)]),
                    c.dlen(ch) >= 0,
                    (c.dlen(ch) == 0) == z3.And(c.dlen0(ch1) == 0, c.dlen0(ch2) == 0),
                ),
            ),
            "never None unless both": z3.Implies(z3.Or(e1 != T.None_, e2 != T.None_), r != T.None_),
        }


def _rejected(c, km, vm, d, k):
    return z3.Or(z3.Not(T.acc(km, k)), z3.Not(T.acc(vm, c.dget0(d, k))))


def _children(c, ch, km, vm, d, seen):
    """ch = { k : error of item k | k in seen, item k rejected }; the error is the key's or the
    value's own error when only one of them is rejected"""
    k = z3.Const("k", Val)
    return z3.And(
        T.forall([k], c.dhas(ch, k) == z3.And(seen[k], _rejected(c, km, vm, d, k)), patterns=[c.dhas(ch, k)]),
        T.forall(
            [k],
            z3.Implies(
                z3.And(seen[k], _rejected(c, km, vm, d, k)),
                z3.And(
                    z3.Implies(T.acc(km, k), c.dget(ch, k) == T.err(vm, c.dget0(d, k))),
                    z3.Implies(T.acc(vm, c.dget0(d, k)), c.dget(ch, k) == T.err(km, k)),
                    isinst(c.dget(ch, k), "ValidationError"),
                ),
            ),
            patterns=[c.dget(ch, k)],
        ),
    )


def _inv_errors(c, errs, km, vm, d, seen):
    k = z3.Const("k", Val)
    kw = z3.Const("kw", Val)
    return [
        z3.Or(errs == T.None_, z3.And(isinst(errs, "dict"), c.fresh(errs))),
        z3.Implies(errs == T.None_, T.forall([k], z3.Implies(seen[k], z3.Not(_rejected(c, km, vm, d, k))), patterns=[seen[k]])),
        z3.Implies(errs != T.None_, z3.And(c.dlen(errs) >= 1, _children(c, errs, km, vm, d, seen), z3.Exists([kw], z3.And(seen[kw], _rejected(c, km, vm, d, kw))))),
    ]


def _ensures(c, copy):
    s, d = c.self, c.data
    km, vm, cs = c.attr0(s, "key_method"), c.attr0(s, "value_method"), c.attr0(s, "constraints")
    k = z3.Const("k", Val)
    x = z3.Const("x", Val)
    has = c.arr0("dhas", d)
    conforms = z3.And(isinst(d, "dict"), T.forall([k], z3.Implies(has[k], z3.Not(_rejected(c, km, vm, d, k))), patterns=[has[k]]), S.all_hold(cs, d))
    out = {"C01: returns iff data is an object whose every key and value conform and whose constraints hold": c.returned == conforms}
    if c.is_return:
        r = c.result
        if copy:
            out["C01: image is a dict"] = cls(r) == K("dict")
            out["C01: image is a fresh dict mapping key images to value images"] = z3.And(
                cls(r) == K("dict"),
                c.fresh(r),
                T.forall([k], z3.Implies(has[k], c.dhas(r, T.img(km, k))), patterns=[has[k]]),
                T.forall(
                    [x],
                    z3.Implies(c.dhas(r, x), z3.Exists([k], z3.And(has[k], x == T.img(km, k), c.dget(r, x) == T.img(vm, c.dget0(d, k))))),
                    patterns=[c.dhas(r, x)],
                ),
            )
        else:
            out["C08: check-only variant returns the input itself"] = r == d
    if c.is_raise:
        e = c.exc
        m, ch = c.attr(e, "messages"), c.attr(e, "children")
        out["C02: exact error (type error, or failing constraints' messages + one child per rejected item, under its key)"] = z3.If(
            isinst(d, "dict"),
            z3.And(cls(e) == K("ValidationError"), S.msgs_are_failures(c, m, cs, d, c.llen0(cs)), isinst(ch, "dict"), _children(c, ch, km, vm, d, has)),
            S.is_bad_type_error(c, e, d, [K("dict")]),
        )
    return out


def _requires(c, name):
    s = c.self
    km = c.attr0(s, "key_method")
    x = z3.Const("x", Val)
    return [
        isinst(s, name),
        isinst(c.attr0(s, "constraints"), "tuple"),
        # Layer-2 fact: keys deserialize to hashable values (str, enum members, ...)
        T.forall([x], z3.Implies(T.acc(km, x), T.hashable(T.img(km, x))), patterns=[T.img(km, x)]),
    ]


@contract(f"{M}:MappingCheckOnly.deserialize", props=["C01", "C02", "C03", "C08"])
class MappingCheckOnlyDeserialize:
    kinds = {"data": "dict"}
    raises = ["ValidationError"]
    exports = ["C01: returns iff data is an object whose every key and value conform and whose constraints hold", "C08: check-only variant returns the input itself"]

    def requires(self, c):
        return _requires(c, "MappingCheckOnly")

    def ensures(self, c):
        return _ensures(c, copy=False)

    def _inv(self, c):
        s, d = c.self, c.data
        km, vm = c.attr0(s, "key_method"), c.attr0(s, "value_method")
        return [isinst(d, "dict")] + _inv_errors(c, c.local_val("item_errors"), km, vm, d, c.seen)

    loops = {0: lambda c: MappingCheckOnlyDeserialize._inv(None, c)}


@contract(f"{M}:MappingMethod.deserialize", props=["C01", "C02", "C03"])
class MappingDeserialize:
    kinds = {"data": "dict", "items": "dict"}
    raises = ["ValidationError"]
    exports = ["C01: returns iff data is an object whose every key and value conform and whose constraints hold", "C01: image is a dict"]

    def requires(self, c):
        return _requires(c, "MappingMethod")

    def ensures(self, c):
        return _ensures(c, copy=True)

    def _inv(self, c):
        s, d = c.self, c.data
        km, vm = c.attr0(s, "key_method"), c.attr0(s, "value_method")
        items = c.local_val("items")
        seen = c.seen
        k = z3.Const("k", Val)
        x = z3.Const("x", Val)
        return [
            isinst(d, "dict"),
            cls(items) == K("dict"),
            c.fresh(items),
            T.forall([k], z3.Implies(z3.And(seen[k], z3.Not(_rejected(c, km, vm, d, k))), c.dhas(items, T.img(km, k))), patterns=[seen[k]]),
            T.forall(
                [x],
                z3.Implies(c.dhas(items, x), z3.Exists([k], z3.And(seen[k], z3.Not(_rejected(c, km, vm, d, k)), x == T.img(km, k), c.dget(items, x) == T.img(vm, c.dget0(d, k))))),
                patterns=[c.dhas(items, x)],
            ),
            c.local_val("item_errors") != items,
        ] + _inv_errors(c, c.local_val("item_errors"), km, vm, d, seen)

    loops = {0: lambda c: MappingDeserialize._inv(None, c)}
