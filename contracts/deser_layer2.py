"""Layer 2 (selection): contracts that rely on the refinement axioms of the node classes
(pyvc/axioms.py) -- available only when the node's own proof succeeded in the same run."""
from __future__ import annotations

import ast

import z3

from pyvc import theory as T
from pyvc.axioms import AxiomCtx
from pyvc.contracts import contract
from pyvc.symexec import Heap, SV, Unsupported, as_val, sv_bool, sv_val
from pyvc.theory import K, Val, cls, isinst

MM = "apischema.deserialization.methods"
DM = "apischema.deserialization"

WF = z3.Function("wf_method", Val, T.B)  # the node tree is well formed (class invariants hold at every node)

CHECK_ONLY_USES = [
    f"{MM}:NoneMethod.deserialize",
    f"{MM}:BoolMethod.deserialize",
    f"{MM}:IntMethod.deserialize",
    f"{MM}:StrMethod.deserialize",
    f"{MM}:ListCheckOnlyMethod.deserialize",
    f"{MM}:MappingCheckOnly.deserialize",
    f"{MM}:OptionalMethod.deserialize",
    f"{MM}:UnionMethod.deserialize",
    f"{MM}:UnionByTypeMethod.deserialize",
    f"{MM}:TypeCheckMethod.deserialize",
]


def CO(m):
    """the node only checks: whatever it accepts it returns as is"""
    d = z3.Const("cod", Val)
    return T.forall([d], z3.Implies(T.acc(m, d), T.img(m, d) == d), patterns=[T.img(m, d)])


def wf_axioms(ex, uses):
    """WF(m) gives the class invariant (the `requires`) of m's own class and is hereditary"""
    m = z3.Const("wm", Val)
    d = z3.Const("wd", Val)
    j = z3.Int("wj")
    k = z3.Const("wk", Val)
    ax = []
    for t in uses:
        c = ex.registry.contract_for(t)
        req = c.requires(AxiomCtx(m, d, "none"))
        # requires of deserialize never mention `data` for these classes
        ax.append(z3.ForAll([m], z3.Implies(WF(m), z3.Implies(req[0], z3.And(*req))), patterns=[WF(m)]))
    a = lambda name: T.heap0(T.attr_heap(name))  # noqa: E731
    lget0, llen0, dhas0, dget0 = T.heap0("lget"), T.heap0("llen"), T.heap0("dhas"), T.heap0("dget")
    ax += [
        z3.ForAll([m], z3.Implies(z3.And(WF(m), isinst(m, "OptionalMethod")), WF(a("value_method")[m])), patterns=[WF(m)]),
        z3.ForAll([m], z3.Implies(z3.And(WF(m), isinst(m, "TypeCheckMethod")), WF(a("fallback")[m])), patterns=[WF(m)]),
        z3.ForAll([m, j], z3.Implies(z3.And(WF(m), isinst(m, "UnionMethod"), j >= 0, j < llen0[a("alt_methods")[m]]), WF(lget0[a("alt_methods")[m]][j])), patterns=[z3.MultiPattern(WF(m), lget0[a("alt_methods")[m]][j])]),
        z3.ForAll([m, k], z3.Implies(z3.And(WF(m), isinst(m, "UnionByTypeMethod"), dhas0[a("method_by_cls")[m]][k]), WF(dget0[a("method_by_cls")[m]][k])), patterns=[z3.MultiPattern(WF(m), dget0[a("method_by_cls")[m]][k])]),
    ]
    return ax


def _all_map_check_only(ex, node, st):
    """all(map(check_only, xs)): true only if check_only holds of every element; by the
    contract of check_only (assumed for the recursive calls) every element then only checks"""
    inner = node.args[0]
    if not (isinstance(inner, ast.Call) and isinstance(inner.func, ast.Name) and inner.func.id == "map" and isinstance(inner.args[0], ast.Name) and inner.args[0].id == "check_only"):
        raise Unsupported("all(...) form")
    src = inner.args[1]
    outs = []
    if isinstance(src, ast.Call) and isinstance(src.func, ast.Attribute) and src.func.attr == "values":
        for s, k, v in ex.eval(src.func.value, st):
            if k == "exc":
                outs.append((s, k, v))
                continue
            dt = as_val(v)
            h = Heap(ex, s)
            kk = z3.Const("kk", Val)
            elems_wf = T.forall([kk], z3.Implies(h.dhas(dt, kk), WF(h.dget(dt, kk))), patterns=[h.dget(dt, kk)])
            ex.oblige("precondition of check_only (recursive calls): every element is a well-formed node", s, elems_wf, node, kind="pre")
            b = ex.fresh("allco", T.B)
            s.assume(z3.Implies(b, T.forall([kk], z3.Implies(h.dhas(dt, kk), CO(h.dget(dt, kk))), patterns=[h.dget(dt, kk)])))
            outs.append((s, "val", sv_bool(b)))
        return outs
    for s, k, v in ex.eval(src, st):
        if k == "exc":
            outs.append((s, k, v))
            continue
        qt = as_val(v)
        h = Heap(ex, s)
        j = z3.Int("jj")
        inr = z3.And(j >= 0, j < h.llen(qt))
        ex.oblige("precondition of check_only (recursive calls): every element is a well-formed node", s, T.forall([j], z3.Implies(inr, WF(h.lget(qt, j))), patterns=[h.lget(qt, j)]), node, kind="pre")
        b = ex.fresh("allco", T.B)
        s.assume(z3.Implies(b, T.forall([j], z3.Implies(inr, CO(h.lget(qt, j))), patterns=[h.lget(qt, j)])))
        outs.append((s, "val", sv_bool(b)))
    return outs


@contract(f"{DM}:check_only", props=["C01", "C08"])
class CheckOnly:
    """C08: `check_only(m)` implies that m returns its datum as is whenever it accepts it -- the
    fact that makes ListCheckOnlyMethod / MappingCheckOnly / SimpleObjectMethod interchangeable
    with their copying counterparts.  Recursive calls use this very contract (induction on the
    finite node tree)."""

    layer = 2
    shards = 12
    uses_axioms_of = CHECK_ONLY_USES
    call_overrides = {"all": _all_map_check_only}
    raises: list = []

    def extra_axioms(self, ex):
        return wf_axioms(ex, CHECK_ONLY_USES)

    def requires(self, c):
        return [WF(c.method)]

    def modifies(self, c):
        return []

    def ensures(self, c):
        return {"C08: a check-only node returns its datum unchanged whenever it accepts it": z3.Implies(c.truthy(c.result), CO(c.method))}


# --- the `collection` factory -----------------------------------------------------------------
from pyvc.calls import issub_rt  # noqa: E402
from pyvc.symexec import SV as _SV  # noqa: E402

from . import spec as S  # noqa: E402

ABC_SET = z3.Const("C_abc_Set", Val)
CVD = z3.Function("constraints_validators_of", Val, Val)  # the mapping class -> tuple of Constraint


def _constraints_validators(ex, node, st):
    """constraints_validators(c): a mapping defined for every class (defaultdict(tuple)) whose
    values are tuples of Constraint objects (E-checked: kind -> class -> error table)"""
    outs = []
    for s, k, vs in ex.eval_many(node.args, st):
        if k == "exc":
            outs.append((s, k, vs))
            continue
        outs.append((s, "val", sv_val(CVD(ex.val_of(vs[0])))))
    return outs


def cv_axioms():
    c, k = z3.Consts("cvc cvk", Val)
    dhas0, dget0 = T.heap0("dhas"), T.heap0("dget")
    return [
        z3.ForAll([c], z3.And(cls(CVD(c)) == K("dict"), T.alloc0[CVD(c)]), patterns=[CVD(c)]),
        z3.ForAll([c, k], z3.And(dhas0[CVD(c)][k], cls(dget0[CVD(c)][k]) == K("tuple"), T.alloc0[dget0[CVD(c)][k]]), patterns=[dget0[CVD(c)][k]]),
        z3.ForAll([c, k], dhas0[CVD(c)][k], patterns=[dhas0[CVD(c)][k]]),
    ]


def issub_axioms():
    c = z3.Const("isc", Val)
    return [
        z3.ForAll([c], z3.Implies(issub_rt(c, K("frozenset")), issub_rt(c, ABC_SET)), patterns=[issub_rt(c, K("frozenset"))]),
        z3.ForAll([c], z3.Not(z3.And(issub_rt(c, K("tuple")), issub_rt(c, ABC_SET))), patterns=[issub_rt(c, K("tuple"))]),
    ]


COLLECTION_USES = CHECK_ONLY_USES + [
    f"{MM}:ListMethod.deserialize",
    f"{MM}:SetMethod.deserialize",
    f"{MM}:VariadicTupleMethod.deserialize",
    f"{MM}:FrozenSetMethod.deserialize",
]


@contract(f"{DM}:DeserializationMethodVisitor.collection.<locals>.factory", props=["C01", "C08"])
class CollectionFactory:
    """Layer 2: whatever variant the factory picks (set / check-only list / copying list, wrapped
    into a tuple or frozenset), the node it returns denotes the collection type: it accepts
    exactly the arrays whose elements the element method accepts and whose array constraints
    hold, and its image has the annotated container class."""

    layer = 2
    shards = 8
    budget_factor = 3  # few obligations, two of them need ~10 s of e-matching over the refinement axioms
    free_vars = ["self", "cls", "value_factory"]
    functional_classes = ["SetMethod", "ListMethod", "ListCheckOnlyMethod", "VariadicTupleMethod", "FrozenSetMethod"]
    uses_axioms_of = COLLECTION_USES
    kinds = {"constraints_validators(constraints)": "dict"}
    call_overrides = {"constraints_validators": _constraints_validators}
    globals = {"collections.abc.Set": lambda ex: _SV("class", ABC_SET)}
    raises: list = []

    def extra_axioms(self, ex):
        return wf_axioms(ex, CHECK_ONLY_USES) + cv_axioms() + issub_axioms()

    def requires(self, c):
        vm = c.attr0(c.value_factory, "method")
        x = z3.Const("x", Val)
        return [
            WF(vm),
            cls(c.attr0(c.self, "no_copy")) == K("bool"),
            # a set / frozenset type has hashable elements (Python typing of the annotated type)
            z3.Implies(issub_rt(c.cls, ABC_SET), T.forall([x], z3.Implies(T.acc(vm, x), T.hashable(T.img(vm, x))), patterns=[T.img(vm, x)])),
        ]

    def modifies(self, c):
        return []

    def ensures(self, c):
        r = c.result
        vm = c.attr0(c.value_factory, "method")
        lc = c.dget0(CVD(c.constraints), K("list"))
        d = z3.Const("fd", Val)
        j = z3.Int("fj")
        conforms = z3.And(isinst(d, "list"), T.forall([j], z3.Implies(z3.And(j >= 0, j < c.llen0(d)), T.acc(vm, c.lget0(d, j))), patterns=[c.lget0(d, j)]), S.all_hold(lc, d))
        is_set = z3.And(issub_rt(c.cls, ABC_SET), z3.Not(issub_rt(c.cls, K("frozenset"))))
        want = z3.If(is_set, K("set"), z3.If(issub_rt(c.cls, K("tuple")), K("tuple"), z3.If(issub_rt(c.cls, K("frozenset")), K("frozenset"), K("list"))))
        return {
            "C01: the compiled node accepts exactly the arrays whose elements conform and whose array constraints hold": T.forall([d], T.acc(r, d) == conforms, patterns=[T.acc(r, d)]),
            "C01/C08: for list types the image holds the elements' images, whichever variant (check-only under no_copy, or copying) was selected": T.forall(
                [d],
                z3.Implies(
                    z3.And(T.acc(r, d), z3.Not(issub_rt(c.cls, ABC_SET)), z3.Not(issub_rt(c.cls, K("tuple")))),
                    z3.And(c.llen0(T.img(r, d)) == c.llen0(d), T.forall([j], z3.Implies(z3.And(j >= 0, j < c.llen0(d)), c.lget0(T.img(r, d), j) == T.img(vm, c.lget0(d, j))), patterns=[c.lget0(T.img(r, d), j)])),
                ),
                patterns=[T.img(r, d)],
            ),
            "C01: the image has the annotated container class (set, tuple, frozenset, else list)": T.forall([d], z3.Implies(T.acc(r, d), T.sub(cls(T.img(r, d)), want)), patterns=[T.img(r, d)]),
        }


# --- the `mapping` factory ----------------------------------------------------------------------
MAPPING_USES = CHECK_ONLY_USES + [f"{MM}:MappingMethod.deserialize"]


@contract(f"{DM}:DeserializationMethodVisitor.mapping.<locals>.factory", props=["C01", "C08"])
class MappingFactory:
    layer = 2
    shards = 8
    budget_factor = 3
    free_vars = ["self", "key_factory", "value_factory"]
    functional_classes = ["MappingMethod", "MappingCheckOnly"]
    uses_axioms_of = MAPPING_USES
    kinds = {"constraints_validators(constraints)": "dict"}
    call_overrides = {"constraints_validators": _constraints_validators}
    raises: list = []

    def extra_axioms(self, ex):
        return wf_axioms(ex, CHECK_ONLY_USES) + cv_axioms()

    def requires(self, c):
        km, vm = c.attr0(c.key_factory, "method"), c.attr0(c.value_factory, "method")
        x = z3.Const("x", Val)
        return [WF(km), WF(vm), cls(c.attr0(c.self, "no_copy")) == K("bool"), T.forall([x], z3.Implies(T.acc(km, x), T.hashable(T.img(km, x))), patterns=[T.img(km, x)])]

    def modifies(self, c):
        return []

    def ensures(self, c):
        r = c.result
        km, vm = c.attr0(c.key_factory, "method"), c.attr0(c.value_factory, "method")
        dc = c.dget0(CVD(c.constraints), K("dict"))
        d = z3.Const("fd", Val)
        k = z3.Const("fk", Val)
        conforms = z3.And(isinst(d, "dict"), T.forall([k], z3.Implies(c.dhas0(d, k), z3.And(T.acc(km, k), T.acc(vm, c.dget0(d, k)))), patterns=[c.dhas0(d, k)]), S.all_hold(dc, d))
        return {
            "C01: the compiled node accepts exactly the objects whose keys and values conform and whose object constraints hold, whichever variant was selected": T.forall([d], T.acc(r, d) == conforms, patterns=[T.acc(r, d)]),
            "C01: the image is a dict": T.forall([d], z3.Implies(T.acc(r, d), isinst(T.img(r, d), "dict")), patterns=[T.img(r, d)]),
        }


# --- the `primitive` factory ----------------------------------------------------------------------
PRIM_USES = [f"{MM}:{k}.deserialize" for k in ("NoneMethod", "BoolMethod", "StrMethod", "IntMethod", "FloatMethod", "ConstrainedStrMethod", "ConstrainedIntMethod", "ConstrainedFloatMethod")]


@contract(f"{DM}:DeserializationMethodVisitor.primitive.<locals>.factory", props=["C01"])
class PrimitiveFactory:
    layer = 2
    free_vars = ["cls"]
    functional_classes = ["NoneMethod", "BoolMethod", "StrMethod", "IntMethod", "FloatMethod", "ConstrainedStrMethod", "ConstrainedIntMethod", "ConstrainedFloatMethod"]
    uses_axioms_of = PRIM_USES
    kinds = {"constraints_validators(constraints)": "dict"}
    call_overrides = {"constraints_validators": _constraints_validators}
    raises: list = []

    def extra_axioms(self, ex):
        return cv_axioms()

    def requires(self, c):
        return [z3.Or(*[c.cls == K(n) for n in ("NoneType", "bool", "str", "int", "float")])]

    def modifies(self, c):
        return []

    def ensures(self, c):
        from pyvc.calls import FLOAT_OVERFLOW, INT2FLOAT

        r, k = c.result, c.cls
        cs = c.dget0(CVD(c.constraints), k)
        d = z3.Const("fd", Val)
        base_ok = z3.If(k == K("float"), z3.Or(cls(d) == K("float"), z3.And(cls(d) == K("int"), z3.Not(FLOAT_OVERFLOW(d)))), cls(d) == k)
        v = z3.If(z3.And(k == K("float"), cls(d) == K("int")), INT2FLOAT(d), d)
        constrained = z3.Or(k == K("str"), k == K("int"), k == K("float"))
        return {
            "C01: strict primitives -- on JSON-like data the compiled node accepts exactly the data of the JSON class (integers also for float, never booleans for numbers) satisfying the constraints registered for that class": T.forall(
                [d], z3.Implies(S.is_json_like(d), T.acc(r, d) == z3.And(base_ok, z3.Or(z3.Not(constrained), S.all_hold(cs, v)))), patterns=[T.acc(r, d)]
            ),
            "C01: the image is the datum, or its float for an integer where float is expected": T.forall([d], z3.Implies(z3.And(S.is_json_like(d), T.acc(r, d)), T.img(r, d) == v), patterns=[T.img(r, d)]),
        }


# --- _factory: where coercion targets come from (C14) ---------------------------------------------
V = f"{DM}:DeserializationMethodVisitor"


def _json_or_none(k):
    return z3.Or(k == T.None_, S.is_json_class(k))


@contract(f"{V}._factory", props=["C14", "C03"])
class FactoryWrapperMaker:
    """`_factory(factory, cls)`: `cls` is the class a configured coercer will be asked to coerce
    the datum to.  Precondition (checked at every call site below): it is one of the JSON classes
    -- the precondition under which `coerce` is proved to raise nothing but ValidationError."""

    functional_classes = ["DeserializationMethodFactory"]
    raises: list = []

    def requires(self, c):
        return [_json_or_none(c.cls)]

    def modifies(self, c):
        return []

    def ensures(self, c):
        return {"C14: the factory records the coercion target it was given": c.attr0(c.result, "cls") == c.cls}


@contract(f"{V}._factory.<locals>.wrapper", props=["C14"])
class FactoryWrapper:
    free_vars = ["self", "factory", "cls", "validation"]
    functional_classes = ["ValidatorMethod", "CoercerMethod"]
    raises: list = []

    def requires(self, c):
        return [_json_or_none(c.cls), cls(c.validation) == K("bool"), isinst(c.validators, "tuple")]

    def modifies(self, c):
        return []

    def ensures(self, c):
        r = c.result
        co = c.attr0(c.self, "coercer")
        wrapped = z3.And(c.cls != T.None_, co != T.None_)
        return {
            "C14: when a coercer is configured and the node has a coercion target, the node is wrapped so that the coerced value is re-checked; the target is a JSON class": z3.Implies(
                wrapped, z3.And(isinst(r, "CoercerMethod"), c.attr0(r, "coercer") == co, c.attr0(r, "cls") == c.cls, S.is_json_class(c.attr0(r, "cls")))
            ),
        }


def _site(method, requires=None, abstract=("visit",), extra=None):
    """a visitor method whose only obligation is the precondition of its `_factory` call"""

    def deco(name):
        attrs = {
            "abstract_methods": list(abstract),
            "raises": ["NotImplementedError", "TypeError"],
            "check_frame": False,
            "requires": (lambda self, c: requires(c) if requires else []),
            "modifies": (lambda self, c: []),
            "ensures": (lambda self, c: {}),
            "__doc__": "call site of _factory: the coercion target passed is a JSON class (or none)",
        }
        if extra:
            attrs.update(extra)
        return contract(f"{V}.{method}", props=["C14"])(type(name, (), attrs))

    return deco


_site("any")("AnySite")
_site("collection")("CollectionSite")
_site("mapping")("MappingSite")
_site("literal")("LiteralSite")
_site("tuple", extra={"kinds": {"types": "seq"}, "loops": {}})("TupleSite") if False else None
_site("primitive", requires=lambda c: [z3.Or(*[c.cls == K(n) for n in ("NoneType", "bool", "str", "int", "float")])])("PrimitiveSite")
_site(
    "subprimitive",
    requires=lambda c: [z3.Or(*[c.superclass == K(n) for n in ("NoneType", "bool", "str", "int", "float")]), z3.Not(S.is_json_class(c.cls)), c.cls != T.None_],
)("SubprimitiveSite")
