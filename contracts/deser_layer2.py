"""Layer 2 (selection): contracts that rely on the refinement axioms of the node classes
(pyvc/axioms.py) -- available only when the node's own proof succeeded in the same run."""
from __future__ import annotations

import ast

import z3

from pyvc import theory as T
from pyvc.axioms import AxiomCtx
from pyvc.contracts import contract
from pyvc.symexec import Heap, SV, Unsupported, as_val, sv_bool, sv_val
from pyvc.theory import K, Val, cls, isinst

MM = "apischema.deserialization.methods"
DM = "apischema.deserialization"

WF = z3.Function("wf_method", Val, T.B)  # the node tree is well formed (class invariants hold at every node)

CHECK_ONLY_USES = [
    f"{MM}:NoneMethod.deserialize",
    f"{MM}:BoolMethod.deserialize",
    f"{MM}:IntMethod.deserialize",
    f"{MM}:StrMethod.deserialize",
    f"{MM}:ListCheckOnlyMethod.deserialize",
    f"{MM}:MappingCheckOnly.deserialize",
    f"{MM}:OptionalMethod.deserialize",
    f"{MM}:UnionMethod.deserialize",
    f"{MM}:UnionByTypeMethod.deserialize",
    f"{MM}:TypeCheckMethod.deserialize",
]


def CO(m):
    """the node only checks: whatever it accepts it returns as is"""
    d = z3.Const("cod", Val)
    return T.forall([d], z3.Implies(T.acc(m, d), T.img(m, d) == d), patterns=[T.img(m, d)])


def wf_axioms(ex, uses):
    """WF(m) gives the class invariant (the `requires`) of m's own class and is hereditary"""
    m = z3.Const("wm", Val)
    d = z3.Const("wd", Val)
    j = z3.Int("wj")
    k = z3.Const("wk", Val)
    ax = []
    for t in uses:
        c = ex.registry.contract_for(t)
        req = c.requires(AxiomCtx(m, d, "none"))
        # requires of deserialize never mention `data` for these classes
        ax.append(z3.ForAll([m], z3.Implies(WF(m), z3.Implies(req[0], z3.And(*req))), patterns=[WF(m)]))
    a = lambda name: T.heap0(T.attr_heap(name))  # noqa: E731
    lget0, llen0, dhas0, dget0 = T.heap0("lget"), T.heap0("llen"), T.heap0("dhas"), T.heap0("dget")
    ax += [
        z3.ForAll([m], z3.Implies(z3.And(WF(m), isinst(m, "OptionalMethod")), WF(a("value_method")[m])), patterns=[WF(m)]),
        z3.ForAll([m], z3.Implies(z3.And(WF(m), isinst(m, "TypeCheckMethod")), WF(a("fallback")[m])), patterns=[WF(m)]),
        z3.ForAll([m, j], z3.Implies(z3.And(WF(m), isinst(m, "UnionMethod"), j >= 0, j < llen0[a("alt_methods")[m]]), WF(lget0[a("alt_methods")[m]][j])), patterns=[z3.MultiPattern(WF(m), lget0[a("alt_methods")[m]][j])]),
        z3.ForAll([m, k], z3.Implies(z3.And(WF(m), isinst(m, "UnionByTypeMethod"), dhas0[a("method_by_cls")[m]][k]), WF(dget0[a("method_by_cls")[m]][k])), patterns=[z3.MultiPattern(WF(m), dget0[a("method_by_cls")[m]][k])]),
    ]
    return ax


def _all_map_check_only(ex, node, st):
    """all(map(check_only, xs)): true only if check_only holds of every element; by the
    contract of check_only (assumed for the recursive calls) every element then only checks"""
    inner = node.args[0]
    if not (isinstance(inner, ast.Call) and isinstance(inner.func, ast.Name) and inner.func.id == "map" and isinstance(inner.args[0], ast.Name) and inner.args[0].id == "check_only"):
        raise Unsupported("all(...) form")
    src = inner.args[1]
    outs = []
    if isinstance(src, ast.Call) and isinstance(src.func, ast.Attribute) and src.func.attr == "values":
        for s, k, v in ex.eval(src.func.value, st):
            if k == "exc":
                outs.append((s, k, v))
                continue
            dt = as_val(v)
            h = Heap(ex, s)
            kk = z3.Const("kk", Val)
            elems_wf = T.forall([kk], z3.Implies(h.dhas(dt, kk), WF(h.dget(dt, kk))), patterns=[h.dget(dt, kk)])
            ex.oblige("precondition of check_only (recursive calls): every element is a well-formed node", s, elems_wf, node, kind="pre")
            b = ex.fresh("allco", T.B)
            s.assume(z3.Implies(b, T.forall([kk], z3.Implies(h.dhas(dt, kk), CO(h.dget(dt, kk))), patterns=[h.dget(dt, kk)])))
            outs.append((s, "val", sv_bool(b)))
        return outs
    for s, k, v in ex.eval(src, st):
        if k == "exc":
            outs.append((s, k, v))
            continue
        qt = as_val(v)
        h = Heap(ex, s)
        j = z3.Int("jj")
        inr = z3.And(j >= 0, j < h.llen(qt))
        ex.oblige("precondition of check_only (recursive calls): every element is a well-formed node", s, T.forall([j], z3.Implies(inr, WF(h.lget(qt, j))), patterns=[h.lget(qt, j)]), node, kind="pre")
        b = ex.fresh("allco", T.B)
        s.assume(z3.Implies(b, T.forall([j], z3.Implies(inr, CO(h.lget(qt, j))), patterns=[h.lget(qt, j)])))
        outs.append((s, "val", sv_bool(b)))
    return outs


@contract(f"{DM}:check_only", props=["C08"])
class CheckOnly:
    """C08: `check_only(m)` implies that m returns its datum as is whenever it accepts it -- the
    fact that makes ListCheckOnlyMethod / MappingCheckOnly / SimpleObjectMethod interchangeable
    with their copying counterparts.  Recursive calls use this very contract (induction on the
    finite node tree)."""

    layer = 2
    shards = 12
    uses_axioms_of = CHECK_ONLY_USES
    call_overrides = {"all": _all_map_check_only}
    raises: list = []

    def extra_axioms(self, ex):
        return wf_axioms(ex, CHECK_ONLY_USES)

    def requires(self, c):
        return [WF(c.method)]

    def modifies(self, c):
        return []

    def ensures(self, c):
        return {"C08: a check-only node returns its datum unchanged whenever it accepts it": z3.Implies(c.truthy(c.result), CO(c.method))}
