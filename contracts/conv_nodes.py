"""C12: the conversion nodes that may see the converter fail.

Converter outcome model (a user callable, so "exceptions raised by user-supplied converters
excepted" of C03 applies): for a converter f and a value v exactly one of
  cv_ret(f, v)   -- returns apply1(f, v)
  cv_ve(f, v)    -- raises a ValidationError  cv_exc(f, v)
  cv_value(f, v) -- raises a ValueError that is not a ValidationError  cv_exc(f, v)
  otherwise      -- raises some other exception  cv_exc(f, v)
holds (pure: the outcome is a function of f and v)."""
from __future__ import annotations

import ast

import z3

from pyvc import theory as T
from pyvc.contracts import contract
from pyvc.symexec import Heap, Unsupported, sv_val
from pyvc.theory import K, Val, cls, isinst

M = "apischema.deserialization.methods"

CV_RET = z3.Function("cv_ret", Val, Val, T.B)
CV_VE = z3.Function("cv_ve", Val, Val, T.B)
CV_VALUE = z3.Function("cv_value", Val, Val, T.B)
CV_EXC = z3.Function("cv_exc", Val, Val, Val)


def call_converter(ex, node, st):
    """`<expr>.converter(value)` under the outcome model above"""
    outs = []
    for s, k, vs in ex.eval_many([node.func.value] + list(node.args), st):
        if k == "exc":
            outs.append((s, k, vs))
            continue
        owner, v = ex.val_of(vs[0]), ex.val_of(vs[1])
        f = Heap(ex, s).attr(owner, "converter")
        e = CV_EXC(f, v)
        cases = [
            ("val", z3.And(CV_RET(f, v))),
            ("ve", z3.And(z3.Not(CV_RET(f, v)), CV_VE(f, v), isinst(e, "ValidationError"))),
            ("value", z3.And(z3.Not(CV_RET(f, v)), z3.Not(CV_VE(f, v)), CV_VALUE(f, v), isinst(e, "ValueError"), z3.Not(isinst(e, "ValidationError")))),
            ("other", z3.And(z3.Not(CV_RET(f, v)), z3.Not(CV_VE(f, v)), z3.Not(CV_VALUE(f, v)), isinst(e, "Exception"), z3.Not(isinst(e, "ValidationError")), z3.Not(isinst(e, "ValueError")))),
        ]
        for kind, cond in cases:
            b = s.fork().assume(cond)
            if kind != "val":
                b.assume(T.alloc0[e])
            if not ex.feasible(b):
                continue
            outs.append((b, "val", sv_val(T.apply1(f, v))) if kind == "val" else (b, "exc", e))
    return outs


@contract(f"{M}:ConversionWithValueErrorMethod.deserialize", props=["C12"])
class ConversionValueErrorDeserialize:
    """catch_value_error converters: a ValueError of the converter becomes a ValidationError"""

    assumptions = [
        "converter outcome model: a user converter f applied to v either returns apply1(f, v), raises a ValidationError, raises a ValueError that is not a ValidationError, or raises another exception -- as a function of (f, v) only",
    ]
    call_overrides = {"self.converter": call_converter}
    raises = ["ValidationError", "Exception"]

    def requires(self, c):
        return [isinst(c.self, "ConversionWithValueErrorMethod")]

    def ensures(self, c):
        s, d = c.self, c.data
        f, m = c.attr0(s, "converter"), c.attr0(s, "method")
        v = T.img(m, d)
        out = {"C12: returns iff the source type accepts and the converter returns": c.returned == z3.And(T.acc(m, d), CV_RET(f, v))}
        if c.is_return:
            out["C12: deserialize(T, d) = f(deserialize(S, d))"] = c.result == T.apply1(f, v)
        if c.is_raise:
            out["C12: the source's own error when it rejects"] = z3.Implies(z3.Not(T.acc(m, d)), c.exc == T.err(m, d))
            out["C12: a ValueError (or ValidationError) of the converter is reported as a ValidationError; any other exception is the converter's own"] = z3.Implies(
                T.acc(m, d), z3.If(z3.Or(CV_VE(f, v), CV_VALUE(f, v)), isinst(c.exc, "ValidationError"), c.exc == CV_EXC(f, v))
            )
        return out


def _alt(c, alts, j):
    a = c.lget0(alts, j)
    return c.attr0(a, "converter"), c.attr0(a, "method"), c.truthy0(c.attr0(a, "value_error"))


def skipped(c, alts, j, d):
    """alternative j does not decide: its source rejects the datum, or its converter refuses the value
    with a ValidationError, or with a ValueError while it is a catch_value_error converter"""
    f, m, flag = _alt(c, alts, j)
    v = T.img(m, d)
    return z3.Or(z3.Not(T.acc(m, d)), z3.And(z3.Not(CV_RET(f, v)), z3.Or(CV_VE(f, v), z3.And(CV_VALUE(f, v), flag))))


@contract(f"{M}:ConversionUnionMethod.deserialize", props=["C12"])
class ConversionUnionDeserialize:
    """several deserializers of one type: tried in (registration) order"""

    assumptions = [
        "converter outcome model: a user converter f applied to v either returns apply1(f, v), raises a ValidationError, raises a ValueError that is not a ValidationError, or raises another exception -- as a function of (f, v) only",
    ]
    kinds = {"self.alternatives": "tuple"}
    call_overrides = {"alternative.converter": call_converter}
    raises = ["ValidationError", "Exception"]

    def requires(self, c):
        alts = c.attr0(c.self, "alternatives")
        j = z3.Int("j")
        return [
            isinst(c.self, "ConversionUnionMethod"),
            isinst(alts, "tuple"),
            c.llen0(alts) >= 1,
            T.forall([j], z3.Implies(z3.And(j >= 0, j < c.llen0(alts)), cls(c.attr0(c.lget0(alts, j), "value_error")) == K("bool")), patterns=[c.lget0(alts, j)]),
        ]

    def ensures(self, c):
        alts, d = c.attr0(c.self, "alternatives"), c.data
        n = c.llen0(alts)
        j, k = z3.Int("j"), z3.Int("k")
        first = lambda kk: z3.And(kk >= 0, kk < n, T.forall([j], z3.Implies(z3.And(j >= 0, j < kk), skipped(c, alts, j, d)), patterns=[c.lget0(alts, j)]), z3.Not(skipped(c, alts, kk, d)))  # noqa: E731
        fk, mk, _ = _alt(c, alts, k)
        vk = T.img(mk, d)
        out = {}
        if c.is_return:
            out["C12: the value is f_k(deserialize(S_k, d)) for the first alternative k (in order) whose source accepts and whose converter does not refuse"] = T.forall(
                [k], z3.Implies(first(k), z3.And(CV_RET(fk, vk), c.result == T.apply1(fk, vk))), patterns=[c.lget0(alts, k)]
            )
            out["C12: some alternative decided"] = z3.Exists([k], first(k))
        if c.is_raise:
            out["C12: when every alternative is skipped the datum is rejected with a ValidationError"] = z3.Implies(
                T.forall([j], z3.Implies(z3.And(j >= 0, j < n), skipped(c, alts, j, d)), patterns=[c.lget0(alts, j)]), isinst(c.exc, "ValidationError")
            )
            out["C12: otherwise the exception is the own exception of the first deciding alternative's converter (not a ValidationError, the following alternatives are not tried)"] = T.forall(
                [k], z3.Implies(first(k), z3.And(z3.Not(CV_RET(fk, vk)), c.exc == CV_EXC(fk, vk), z3.Not(isinst(c.exc, "ValidationError")))), patterns=[c.lget0(alts, k)]
            )
        return out

    @staticmethod
    def _inv(c):
        alts, d = c.attr0(c.self, "alternatives"), c.data
        error = c.local_val("error")
        j = z3.Int("j")
        return [
            T.forall([j], z3.Implies(z3.And(j >= 0, j < c.index), skipped(c, alts, j, d)), patterns=[c.lget0(alts, j)]),
            z3.Or(error == T.None_, isinst(error, "ValidationError")),
            (error == T.None_) == (c.index == 0),
        ]

    loops = {0: lambda c: ConversionUnionDeserialize._inv(c)}


# --- default serializer lookup: inheritance of serializers (C12 "subclasses of T inherit it") ----
CV = "apischema.conversions.converters"
SERIALIZERS = z3.Const("G_serializers", Val)  # the registry apischema.conversions.converters._serializers (read through its CacheAwareDict wrapper)
MRO = z3.Function("mro_of", Val, Val)  # getattr(tp, "__mro__", [tp])


def _getattr_mro(ex, node, st):
    if not (len(node.args) == 3 and isinstance(node.args[1], ast.Constant) and node.args[1].value == "__mro__"):
        raise Unsupported("getattr form in default_serialization")
    outs = []
    for s, k, vs in ex.eval_many([node.args[0]], st):
        if k == "exc":
            outs.append((s, k, vs))
            continue
        outs.append((s, "val", sv_val(MRO(ex.val_of(vs[0])))))
    return outs


def _inheritable(c, tp, j):
    """the serializer registered for the j-th class of tp's MRO applies to tp"""
    mro = MRO(tp)
    k = c.lget0(mro, j)
    conv = c.dget0(SERIALIZERS, k)
    inh = c.attr0(conv, "inherited")
    return z3.And(
        c.dhas0(SERIALIZERS, k),
        z3.Or(T.py_eq(k, tp), z3.Not(z3.Or(isinst(conv, "Conversion"), isinst(conv, "LazyConversion"))), T.py_eq(inh, T.None_), T.py_eq(inh, T.True_)),
    )


@contract(f"{CV}:default_serialization", props=["C12"])
class DefaultSerialization:
    kinds = {"getattr(tp, '__mro__', [tp])": "tuple", "_serializers": "dict"}
    call_overrides = {"getattr": _getattr_mro}
    globals = {"_serializers": lambda ex: sv_val(SERIALIZERS)}
    raises: list = []
    assumptions = ["reads of the registry `_serializers` go through CacheAwareDict.__contains__ / __getitem__, modelled as reads of the wrapped dict; classes are hashable"]

    def requires(self, c):
        tp = c.p["tp"]
        mro = MRO(tp)
        j = z3.Int("j")
        return [
            cls(SERIALIZERS) == K("dict"),
            T.alloc0[SERIALIZERS],
            z3.Or(cls(mro) == K("tuple"), cls(mro) == K("list")),
            T.alloc0[mro],
            c.llen0(mro) >= 1,
            T.forall([j], z3.Implies(z3.And(j >= 0, j < c.llen0(mro)), T.hashable(c.lget0(mro, j))), patterns=[c.lget0(mro, j)]),
        ]

    def modifies(self, c):
        return []

    def ensures(self, c):
        tp = c.p["tp"]
        mro = MRO(tp)
        n = c.llen0(mro)
        j, k = z3.Int("j"), z3.Int("k")
        first = lambda kk: z3.And(kk >= 0, kk < n, _inheritable(c, tp, kk), T.forall([j], z3.Implies(z3.And(j >= 0, j < kk), z3.Not(_inheritable(c, tp, j))), patterns=[c.lget0(mro, j)]))  # noqa: E731
        return {
            "C12: the serializer of the nearest class of the MRO whose serializer is inheritable (the class itself, a plain function, or inherited in (None, True))": T.forall(
                [k], z3.Implies(first(k), c.result == c.dget0(SERIALIZERS, c.lget0(mro, k))), patterns=[c.lget0(mro, k)]
            ),
            "C12: no conversion when no class of the MRO has an inheritable serializer": z3.Implies(
                T.forall([j], z3.Implies(z3.And(j >= 0, j < n), z3.Not(_inheritable(c, tp, j))), patterns=[c.lget0(mro, j)]), c.result == T.None_
            ),
        }

    @staticmethod
    def _inv(c):
        tp = c.p["tp"]
        j = z3.Int("j")
        return [T.forall([j], z3.Implies(z3.And(j >= 0, j < c.index), z3.Not(_inheritable(c, tp, j))), patterns=[c.lget0(MRO(tp), j)])]

    loops = {0: lambda c: DefaultSerialization._inv(c)}
