#!/bin/sh
# re-run every check on the unchanged tree, refreshing the committed obligation lists and the evidence
cd "$(dirname "$0")"
for f in checks/c[0-9][0-9].py; do
  id=$(basename $f .py | tr c C)
  ./check $id --update-obligations 2>&1 | tail -1
done
